#!/venv/bin/python
"""Evaluate a seeded change (a patch that breaks C12 or C13 while the test
suite still passes) against the checks, and file it under /verif/seeded/<id>/.

  tools/seeded.py add <id> <property> <patch.diff> <demo.py> <notes.txt>   verify + file + run checks
  tools/seeded.py run [<id> ...]                                            re-run the checks on filed changes

Verification done here (never in /repo): scratch copy of /repo -> demo exits 0;
patch applied -> whole test suite passes, demo exits 1; then both quick checks
are run against the patched copy (--repo) with evidence / replay output
redirected to the scratch directory.  meta.json records all of it.
"""
import json
import os
import re
import shutil
import subprocess
import sys
import tempfile
import time

VERIF = os.path.dirname(os.path.dirname(os.path.abspath(__file__)))
SEEDED = os.path.join(VERIF, "seeded")
PY = "/venv/bin/python"


def sh(cmd, cwd=None, env=None, timeout=1800):
    p = subprocess.run(cmd, cwd=cwd, env=env, capture_output=True, text=True, timeout=timeout)
    return p.returncode, p.stdout + p.stderr


def scratch_copy():
    d = tempfile.mkdtemp(prefix="seeded-")
    dst = os.path.join(d, "repo")
    shutil.copytree("/repo", dst, ignore=shutil.ignore_patterns(".git", "__pycache__", "*.pyc", ".pytest_cache"))
    subprocess.run(["git", "init", "-q"], cwd=dst)
    return d, dst


def verify_and_check(sid, budget):
    sd = os.path.join(SEEDED, sid)
    meta_path = os.path.join(sd, "meta.json")
    meta = json.load(open(meta_path)) if os.path.exists(meta_path) else {}
    d, copy = scratch_copy()
    try:
        shutil.copy(os.path.join(sd, "demo.py"), os.path.join(copy, "demo_seeded.py"))
        rc0, out0 = sh([PY, "demo_seeded.py"], cwd=copy, timeout=600)
        rc, out = sh(["git", "apply", "--whitespace=nowarn", os.path.join(sd, "patch.diff")], cwd=copy)
        if rc != 0:
            raise SystemExit("patch does not apply: " + out)
        rct, outt = sh([PY, "-m", "pytest", "-q", "-p", "no:cacheprovider", "--no-header"], cwd=copy, timeout=1200, env=dict(os.environ, TMPDIR=d))
        m = re.search(r"(\d+) passed", outt)
        f = re.search(r"(\d+) failed", outt)
        rc1, out1 = sh([PY, "demo_seeded.py"], cwd=copy, timeout=600)
        meta["verified"] = {
            "demo_exit_clean": rc0,
            "demo_exit_patched": rc1,
            "demo_output_patched_tail": out1[-600:],
            "suite_passed": int(m.group(1)) if m else 0,
            "suite_failed": int(f.group(1)) if f else 0,
            "suite_exit": rct,
        }
        print("%s: demo clean=%d patched=%d, suite %s passed / %s failed" % (sid, rc0, rc1, meta["verified"]["suite_passed"], meta["verified"]["suite_failed"]))
        env = dict(os.environ)
        env["VERIF_EVIDENCE_DIR"] = os.path.join(d, "evidence")
        env["VERIF_REPLAY_DIR"] = os.path.join(d, "replays")
        checks = {}
        for prop in ("C12", "C13"):
            t0 = time.time()
            rc, out = sh([os.path.join(VERIF, "check"), prop, "quick", "--repo", copy, "--budget", str(budget), "--no-det"], env=env)
            mm = re.search(r"^VIOLATION property=(\S+) replay=(\S+)", out, re.M)
            km = re.search(r"kind=(\S+) run=(\d+): (.*)", out)
            runs = re.search(r": (\d+) runs", out)
            entry = {"exit": rc, "caught": rc == 1 and mm is not None, "seconds": round(time.time() - t0, 1), "runs": int(runs.group(1)) if runs else None}
            if entry["caught"]:
                entry["kind"] = km.group(1) if km else None
                entry["detail"] = km.group(3)[:200] if km else None
                rrc, rout = sh([os.path.join(VERIF, "check"), prop, "--replay", mm.group(2), "--repo", copy], env=env)
                entry["replay_reproduces"] = rrc == 1
                rrc0, _ = sh([os.path.join(VERIF, "check"), prop, "--replay", mm.group(2), "--repo", "/repo"], env=env)
                entry["replay_clean_on_unpatched"] = rrc0 == 0
                try:
                    rep = json.load(open(mm.group(2)))
                    entry["minimised"] = rep.get("minimisation")
                    shutil.copy(mm.group(2), os.path.join(sd, "replay-%s.json" % prop))
                except Exception:
                    pass
            elif rc not in (0, 1):
                entry["output_tail"] = out[-800:]
            checks[prop] = entry
            print("   %s: %s" % (prop, json.dumps(entry)[:300]))
        meta["checks"] = checks
        meta["checks_cmd"] = "./check <prop> quick --repo <scratch copy with patch applied> --budget %s --no-det" % budget
    finally:
        shutil.rmtree(d, ignore_errors=True)
    json.dump(meta, open(meta_path, "w"), indent=1)
    return meta


def check_benign(bid, budget):
    """A property-PRESERVING change: suite passes, both checks must stay silent."""
    sd = os.path.join(VERIF, "benign", bid)
    meta_path = os.path.join(sd, "meta.json")
    meta = json.load(open(meta_path)) if os.path.exists(meta_path) else {}
    d, copy = scratch_copy()
    try:
        rc, out = sh(["git", "apply", "--whitespace=nowarn", os.path.join(sd, "patch.diff")], cwd=copy)
        if rc != 0:
            raise SystemExit("patch does not apply: " + out)
        rct, outt = sh([PY, "-m", "pytest", "-q", "-p", "no:cacheprovider", "--no-header"], cwd=copy, timeout=1200, env=dict(os.environ, TMPDIR=d))
        m = re.search(r"(\d+) passed", outt)
        f = re.search(r"(\d+) failed", outt)
        meta["verified"] = {"suite_passed": int(m.group(1)) if m else 0, "suite_failed": int(f.group(1)) if f else 0}
        env = dict(os.environ)
        env["VERIF_EVIDENCE_DIR"] = os.path.join(d, "evidence")
        env["VERIF_REPLAY_DIR"] = os.path.join(d, "replays")
        checks = {}
        for prop in ("C12", "C13"):
            t0 = time.time()
            rc, out = sh([os.path.join(VERIF, "check"), prop, "quick", "--repo", copy, "--budget", str(budget)], env=env)
            runs = re.search(r": (\d+) runs", out)
            entry = {"exit": rc, "silent": rc == 0 and "VIOLATION" not in out, "seconds": round(time.time() - t0, 1), "runs": int(runs.group(1)) if runs else None}
            if not entry["silent"]:
                entry["output_tail"] = out[-1500:]
                mm = re.search(r"^VIOLATION property=(\S+) replay=(\S+)", out, re.M)
                if mm and os.path.exists(mm.group(2)):
                    shutil.copy(mm.group(2), os.path.join(sd, "alarm-%s.json" % prop))
            checks[prop] = entry
            print("   %s %s: %s" % (bid, prop, json.dumps({k: v for k, v in entry.items() if k != "output_tail"})))
            if not entry["silent"]:
                print(entry["output_tail"][-700:])
        meta["checks"] = checks
    finally:
        shutil.rmtree(d, ignore_errors=True)
    json.dump(meta, open(meta_path, "w"), indent=1)


def main():
    if len(sys.argv) < 2:
        raise SystemExit(__doc__)
    budget = os.environ.get("SEEDED_BUDGET", "40")
    if sys.argv[1] == "add":
        sid, prop, patch, demo, notes = sys.argv[2:7]
        sd = os.path.join(SEEDED, sid)
        os.makedirs(sd, exist_ok=True)
        shutil.copy(patch, os.path.join(sd, "patch.diff"))
        shutil.copy(demo, os.path.join(sd, "demo.py"))
        shutil.copy(notes, os.path.join(sd, "notes.txt"))
        meta = {"id": sid, "breaks": prop, "source": "independent sub-agent given only the property text and a scratch worktree", "needs": open(notes).read().strip()}
        json.dump(meta, open(os.path.join(sd, "meta.json"), "w"), indent=1)
        verify_and_check(sid, budget)
    elif sys.argv[1] == "add-benign":
        bid, patch, why = sys.argv[2:5]
        sd = os.path.join(VERIF, "benign", bid)
        os.makedirs(sd, exist_ok=True)
        shutil.copy(patch, os.path.join(sd, "patch.diff"))
        shutil.copy(why, os.path.join(sd, "why.txt"))
        json.dump({"id": bid, "kind": "property-preserving change (false-alarm test)", "source": "independent sub-agent given only the property texts", "why_it_holds": open(why).read().strip()}, open(os.path.join(sd, "meta.json"), "w"), indent=1)
        check_benign(bid, budget)
    elif sys.argv[1] == "run-benign":
        for bid in sys.argv[2:] or sorted(os.listdir(os.path.join(VERIF, "benign"))):
            check_benign(bid, budget)
    elif sys.argv[1] == "run":
        ids = sys.argv[2:] or sorted(os.listdir(SEEDED))
        for sid in ids:
            if os.path.isdir(os.path.join(SEEDED, sid)):
                verify_and_check(sid, budget)


if __name__ == "__main__":
    main()
