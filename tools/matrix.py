#!/venv/bin/python
"""Detection robustness matrix: every filed seeded change x several VERIF_SEED
values, quick tier of the property it breaks, against a patched scratch copy.

  tools/matrix.py [--seeds 1,2,3] [--budget 40] [ids...]   -> prints a table, writes seeded/MATRIX.json
"""
import json
import os
import re
import shutil
import subprocess
import sys
import tempfile
import time

VERIF = os.path.dirname(os.path.dirname(os.path.abspath(__file__)))
SEEDED = os.path.join(VERIF, "seeded")


def main():
    args = sys.argv[1:]
    seeds = [1, 2, 3]
    budget = "40"
    ids = []
    while args:
        a = args.pop(0)
        if a == "--seeds":
            seeds = [int(x) for x in args.pop(0).split(",")]
        elif a == "--budget":
            budget = args.pop(0)
        else:
            ids.append(a)
    ids = ids or sorted(d for d in os.listdir(SEEDED) if os.path.isdir(os.path.join(SEEDED, d)))
    out = {}
    for sid in ids:
        meta = json.load(open(os.path.join(SEEDED, sid, "meta.json")))
        prop = meta["breaks"]
        d = tempfile.mkdtemp(prefix="matrix-")
        try:
            copy = os.path.join(d, "repo")
            shutil.copytree("/repo", copy, ignore=shutil.ignore_patterns(".git", "__pycache__", "*.pyc"))
            subprocess.run(["git", "init", "-q"], cwd=copy)
            subprocess.run(["git", "apply", "--whitespace=nowarn", os.path.join(SEEDED, sid, "patch.diff")], cwd=copy, check=True)
            env = dict(os.environ, VERIF_EVIDENCE_DIR=os.path.join(d, "ev"), VERIF_REPLAY_DIR=os.path.join(d, "rp"))
            row = {}
            for s in seeds:
                t0 = time.time()
                p = subprocess.run([os.path.join(VERIF, "check"), prop, "quick", "--repo", copy, "--seed", str(s), "--budget", budget, "--no-det"], env=env, capture_output=True, text=True)
                m = re.search(r"kind=(\S+) run=(\d+)", p.stdout)
                row[str(s)] = {"exit": p.returncode, "first_failing_run": int(m.group(2)) if m else None, "kind": m.group(1) if m else None, "s": round(time.time() - t0, 1)}
            out[sid] = {"property": prop, "seeds": row}
            print(sid, prop, " ".join("%s:%s@%s" % (s, "CAUGHT" if r["exit"] == 1 else ("MISSED" if r["exit"] == 0 else "ERR%d" % r["exit"]), r["first_failing_run"]) for s, r in row.items()))
            sys.stdout.flush()
        finally:
            shutil.rmtree(d, ignore_errors=True)
    json.dump(out, open(os.path.join(os.environ.get("MATRIX_OUT", SEEDED), "MATRIX.json"), "w"), indent=1)
    missed = [(k, s) for k, v in out.items() for s, r in v["seeds"].items() if r["exit"] != 1]
    print("matrix: %d cells, %d not caught: %s" % (sum(len(v["seeds"]) for v in out.values()), len(missed), missed))


if __name__ == "__main__":
    main()
