"""Systematic part of the search: fault points and pre-emption points of short
programs are *enumerated* instead of drawn, so that no token boundary of any
construct family in workload.STATEFUL_SNIPPETS is left to chance.

C12 cases (one history each):
    [ damaged/aborted call on snippet S at point k, probe, S undamaged, probe' ]
    for every snippet S, every cheap-token boundary k, and fault kind in
    {truncation, seam-abort, abandoned standalone lexer}, plus line-aborts at a
    ladder of line-event counts.
C13 cases (one run each):
    actor 0 parses A, actor 1 parses B (A, B short programs with clashing
    names); schedule = A runs k steps, B runs to completion, A finishes - for
    every k; plus the same for generator / visitor pairs at line granularity
    with a stride.

The cases are a fixed list (independent of VERIF_SEED); the seed only selects
which slice a quick run covers (thorough covers all of them) and the order.
"""
from . import workload as W
from .c12 import CLASH_PROBES
from .common import H

LINE_LADDER = [3, 10, 25, 60, 150, 400, 1000, 2500, 6000, 15000]
EXCS = ["KeyboardInterrupt", "MemoryError", "SimAbort"]

_CACHE = {}


def _programs():
    progs = [list(s) for s in W.STATEFUL_SNIPPETS]
    return progs


def _ntok(items):
    return sum(len(W.cheap_tokens(t)) for t in items)


def _trunc(items, k):
    """Cut the program before its k-th cheap token (k counted over all items)."""
    out = []
    for it in items:
        spans = W.cheap_tokens(it)
        if k >= len(spans):
            out.append(it)
            k -= len(spans)
            continue
        piece = it[: spans[k][0]]
        if piece.strip():
            out.append(piece)
        return out
    return out


def c12_cases():
    if "c12" in _CACHE:
        return _CACHE["c12"]
    cases = []
    progs = _programs()
    for si, items in enumerate(progs):
        n = _ntok(items)
        for k in range(0, n + 1):
            cases.append(("trunc", si, k))
            cases.append(("seam", si, k + 1))
            cases.append(("abandon", si, k))
        for k in LINE_LADDER:
            cases.append(("line", si, k))
    _CACHE["c12"] = cases
    return cases


def c12_spec(ci):
    kind, si, k = c12_cases()[ci]
    progs = _programs()
    items = progs[si]
    p1 = list(CLASH_PROBES[H("p1", ci) % len(CLASH_PROBES)])
    p2 = list(CLASH_PROBES[H("p2", ci) % len(CLASH_PROBES)])
    exc = EXCS[ci % 3]
    fn = ["a.c", "b.c", ""][ci % 3]
    ops = []
    if kind == "trunc":
        obj = "P0" if ci % 2 else "P1"
        ops = [
            {"op": "parse", "obj": obj, "filename": fn, "items": _trunc(items, k), "mut": "trunc (sweep) before token %d" % k},
            {"op": "parse", "obj": obj, "filename": "probe.c", "items": p1},
            {"op": "parse", "obj": obj, "filename": fn, "items": list(items)},
            {"op": "parse", "obj": obj, "filename": "probe.c", "items": p2},
        ]
    elif kind == "seam":
        ops = [
            {"op": "parse", "obj": "P1", "filename": fn, "items": list(items), "fault": {"kind": "seam-abort", "at": k, "exc": exc}},
            {"op": "parse", "obj": "P1", "filename": "probe.c", "items": p1},
            {"op": "parse", "obj": "P1", "filename": fn, "items": list(items)},
            {"op": "parse", "obj": "P1", "filename": "probe.c", "items": p2},
        ]
    elif kind == "line":
        obj = "P0" if ci % 2 else "P1"
        ops = [
            {"op": "parse", "obj": obj, "filename": fn, "items": list(items), "fault": {"kind": "line-abort", "at": k, "exc": exc}},
            {"op": "parse", "obj": obj, "filename": "probe.c", "items": p1},
            {"op": "parse", "obj": obj, "filename": fn, "items": list(items)},
            {"op": "gen", "items": list(items), "select": ["root", 0], "reduce": False, "gencls": "plain", "filename": "g.c"},
            {"op": "gen", "items": p1, "select": ["Compound", 0, ["Decl", "FuncDef"]], "reduce": False, "gencls": "plain", "filename": "g.c"},
        ]
    else:  # abandoned standalone lexer
        ops = [
            {"op": "lex", "filename": fn, "items": list(items), "take": k, "errmode": "record"},
            {"op": "lex", "filename": "probe.c", "items": p1, "errmode": "record"},
            {"op": "lex", "items": list(items), "errmode": "raise" if ci % 2 else "record"},
        ]
    return {
        "property": "C12",
        "mode": "token",
        "check_fresh": True,
        "policy": {"kind": "rtc"},
        "actors": [{"reuse": True, "ops": ops}],
        "swarm": {"faulty": True, "style": "sweep:" + kind},
    }


def _pair_programs():
    progs = _programs() + [list(p) for p in CLASH_PROBES if any(x.strip() for x in p)]
    return progs


def c13_cases():
    if "c13" in _CACHE:
        return _CACHE["c13"]
    progs = _pair_programs()
    cases = []
    n = len(progs)
    for ai in range(n):
        na = _ntok(progs[ai])
        for r in range(3):
            bi = (ai + 1 + H("partner", ai, r) % (n - 1)) % n
            for k in range(1, na + 3):
                cases.append(("tok", ai, bi, k))
        # the same program in both actors: both pass through the same helpers, so a
        # window inside one helper is met by construction
        for k in range(1, na + 3):
            cases.append(("tok", ai, ai, k))
        # pre-emption around the j-th execution of a line that writes shared state
        # (positions resolved from A's solo profile; empty on a per-instance tree)
        for j in range(12):
            cases.append(("sw", ai, (ai + 1 + H("swpartner", ai, j) % (n - 1)) % n if j % 2 else ai, j))
        # the same windows met on ONE thread: B is called from inside A's parse
        bi = (ai + 1 + H("nestpartner", ai) % (n - 1)) % n
        for k in range(1, na + 3):
            cases.append(("nest", ai, bi, k))
            cases.append(("nest", ai, ai, k))
        bi = (ai + 1 + H("genpartner", ai) % (n - 1)) % n
        for k in range(1, 700, 9):
            cases.append(("gen", ai, bi, k))
        for k in range(1, 300, 9):
            cases.append(("visit", ai, bi, k))
    # pre-emption near the start and near the end of an operation, at line
    # granularity, for every operation kind (set-up and tear-down code runs
    # there: instance construction, state reset, default objects, final checks)
    for pi, (ka, kb) in enumerate(EDGE_PAIRS):
        for k in range(1, 61):
            cases.append(("edge-start", pi, 0, k))
        for k in range(1, 41):
            cases.append(("edge-end", pi, 0, k))
        # two pre-emptions: A is stopped k steps after its start, B gets j steps
        # (so that it is *inside* its operation), A runs to its end, B finishes
        for k in range(1, 49):
            for j in EDGE_LADDER:
                cases.append(("edge-2", pi, j, k))
    _CACHE["c13"] = cases
    return cases


EDGE_LADDER = [6, 20, 60, 150, 400]
EDGE_KINDS = ["pf-default", "pf-own", "parse-sim", "parse-plain", "gen", "visit", "lex", "roundtrip"]
EDGE_PAIRS = [(k, k) for k in EDGE_KINDS] + [
    ("pf-default", "parse-plain"), ("pf-own", "pf-default"), ("parse-sim", "parse-plain"), ("gen", "visit"),
    ("roundtrip", "gen"), ("lex", "parse-sim"), ("parse-plain", "gen"), ("visit", "parse-sim"),
]


def _edge_op(kind, items, i, ci):
    fn = "act%d.c" % i
    if kind in ("pf-default", "pf-own"):
        op = {"op": "parse_file", "filename": fn, "items": items, "use_cpp": bool(ci % 3 == 0)}
        if kind == "pf-default":
            op["default_parser"] = True
        else:
            op["obj"] = "P0" if ci % 2 else "P1"
        if ci % 2:
            op["encoding"] = "utf-8"
        if ci % 4 < 2:
            op["filename"] = "d%d/unit.c" % i  # same base name, different directories
        return op
    if kind == "parse-sim":
        return {"op": "parse", "filename": fn, "items": items, "obj": "P1"}
    if kind == "parse-plain":
        return {"op": "parse", "filename": fn, "items": items, "obj": "P0"}
    if kind == "gen":
        return {"op": "gen", "filename": fn, "items": items, "select": ["root", 0], "reduce": bool(ci % 2), "gencls": "plain"}
    if kind == "visit":
        return {"op": "visit", "filename": fn, "items": items, "visitor": ["Collect", "CollectMore"][i % 2], "tag": "tag%d" % i}
    if kind == "lex":
        return {"op": "lex", "filename": fn, "items": items, "sim": True, "errmode": "record"}
    return {"op": "roundtrip", "filename": fn, "items": items, "reduce": False}


def c13_spec(ci):
    kind, ai, bi, k = c13_cases()[ci]
    progs = _pair_programs()
    if kind in ("edge-start", "edge-end", "edge-2"):
        ka, kb = EDGE_PAIRS[ai]
        n = len(progs)
        A = list(progs[H("edgeA", ai, k) % n])
        B = list(progs[H("edgeB", ai, k) % n])
        actors = [
            {"reuse": False, "ops": [_edge_op(ka, A, 0, ci)], "kind": kind},
            {"reuse": False, "ops": [_edge_op(kb, B, 1, ci)], "kind": kind},
        ]
        for i, a in enumerate(actors):
            a["markers"] = {"strings": ["act%d.c" % i, "tag%d" % i], "line_block": None, "not_for": {}}
        spec = {
            "property": "C13",
            "mode": "line",
            "policy": {"kind": "sweep"},
            "actors": actors,
            "check_fresh": False,
            "swarm": {"faulty": False, "theme": "sweep:" + kind},
        }
        if kind == "edge-start":
            spec["schedule"] = [[0, k], [1, 1 << 40], [0, 1 << 40]]
        elif kind == "edge-2":
            spec["schedule"] = [[0, k], [1, bi], [0, 1 << 40], [1, 1 << 40]]
        else:
            # resolved by the runner once the solo step count of actor 0 is known
            spec["schedule_from_end"] = k
            spec["schedule"] = [[0, 1 << 40], [1, 1 << 40]]
        return spec
    A, B = list(progs[ai]), list(progs[bi])
    if kind == "sw":
        opk = ["gen", "parse", "visit", "gen"][(k // 2) % 4 if k < 8 else ci % 4]
        def mk(i, items):
            fn = "act%d.c" % i
            if opk == "gen":
                return {"op": "gen", "filename": fn, "items": items, "select": ["root", 0], "reduce": False, "gencls": "plain"}
            if opk == "visit":
                return {"op": "visit", "filename": fn, "items": items, "visitor": "Collect", "tag": "tag%d" % i}
            return {"op": "parse", "filename": fn, "items": items, "obj": "P0"}
        actors = [{"reuse": False, "ops": [mk(0, A)], "kind": kind}, {"reuse": False, "ops": [mk(1, B)], "kind": kind}]
        for i, a in enumerate(actors):
            a["markers"] = {"strings": ["act%d.c" % i, "tag%d" % i], "line_block": None, "not_for": {}}
        return {
            "property": "C13",
            "mode": "line",
            "policy": {"kind": "sweep"},
            "schedule_at_shared_write": [H("swhit", ci) % 24, [0, 1, 2, 3][ci % 4]],
            "schedule": [[0, 1 << 40], [1, 1 << 40]],
            "actors": actors,
            "check_fresh": False,
            "swarm": {"faulty": False, "theme": "sweep:" + kind},
        }
    if kind == "nest":
        inner = {"op": "gen" if ci % 5 == 0 else "parse", "filename": "act1.c", "items": B}
        a0 = {"op": "parse", "filename": "act0.c", "items": A, "nest": {"at": k, "ops": [inner]}}
        return {
            "property": "C13",
            "mode": "token",
            "policy": {"kind": "sweep"},
            "schedule": [[0, 1 << 40]],
            "actors": [{"reuse": False, "ops": [a0], "kind": kind, "markers": {"strings": ["act0.c", "tag0"], "line_block": None, "not_for": {}}}],
            "check_fresh": False,
            "swarm": {"faulty": False, "theme": "sweep:" + kind},
        }
    if kind == "tok":
        opk = ["parse", "parse", "roundtrip", "parse_file"][ci % 4]
        a0 = {"op": opk, "filename": "act0.c", "items": A}
        a1 = {"op": "parse" if ci % 3 else "roundtrip", "filename": "act1.c", "items": B}
        mode = "token"
    elif kind == "gen":
        red = bool(ci % 2)
        a0 = {"op": "gen", "filename": "act0.c", "items": A, "select": ["root", 0], "reduce": red, "gencls": "plain"}
        a1 = {"op": "gen", "filename": "act1.c", "items": B, "select": ["root", 0], "reduce": red, "gencls": ["plain", "plain", "Upper"][ci % 3]}
        mode = "line"
    else:
        a0 = {"op": "visit", "filename": "act0.c", "items": A, "visitor": ["Collect", "Count"][ci % 2], "tag": "tag0"}
        a1 = {"op": "visit", "filename": "act1.c", "items": B, "visitor": ["Collect", "CollectMore", "Count", "CountMore"][ci % 4], "tag": "tag1"}
        mode = "line"
    actors = [{"reuse": False, "ops": [a0], "kind": kind}, {"reuse": False, "ops": [a1], "kind": kind}]
    for i, a in enumerate(actors):
        a["markers"] = {"strings": ["act%d.c" % i, "tag%d" % i], "line_block": None, "not_for": {}}
    return {
        "property": "C13",
        "mode": mode,
        "policy": {"kind": "sweep"},
        "schedule": [[0, k], [1, 1 << 40], [0, 1 << 40]],
        "actors": actors,
        "check_fresh": False,
        "swarm": {"faulty": False, "theme": "sweep:" + kind},
    }


def sw_case_indices():
    if "sw_idx" not in _CACHE:
        _CACHE["sw_idx"] = [i for i, c in enumerate(c13_cases()) if c[0] == "sw"]
    return _CACHE["sw_idx"]


def n_cases(prop):
    return len(c12_cases() if prop == "C12" else c13_cases())


def spec_for(prop, j):
    return c12_spec(j) if prop == "C12" else c13_spec(j)


def order(prop, seed):
    """A seed-dependent permutation of the case indices (stride walk), so a
    quick run covers a different slice under every VERIF_SEED."""
    n = n_cases(prop)
    start = H("sweep-start", prop, seed) % n
    stride = 1 + 2 * (H("sweep-stride", prop, seed) % 50)
    # make the stride co-prime with n
    import math

    while math.gcd(stride, n) != 1:
        stride += 2
    return start, stride, n


# --------------------------------------------------------------------------
# Extended (thorough tier only): dense line-granular sweeps
# --------------------------------------------------------------------------
def ext_cases(prop):
    key = "ext:" + prop
    if key in _CACHE:
        return _CACHE[key]
    cases = []
    if prop == "C12":
        # an asynchronous abort at evenly spaced fractions (about every 5th line event) of the parse of every
        # construct snippet (about 60-80 line events per token), then probes
        progs = _programs()
        for si, items in enumerate(progs):
            q = 25 * max(4, _ntok(items))  # spacing of about 5 line events
            for i in range(q):
                cases.append((si, i, q))
    else:
        # one pre-emption inside A's parse at Q evenly spaced line events (Q chosen so
        # that the spacing is about 8 line events for a partner with clashing names
        # and about 3 for the same program in both actors - both then pass through
        # the same helpers, so a window inside one helper is met by construction);
        # the position is resolved from A's solo step count when the case is run
        progs = _pair_programs()
        n = len(progs)
        for ai in range(n):
            nt = max(4, _ntok(progs[ai]))
            bi = (ai + 1 + H("linepartner", ai) % (n - 1)) % n
            q = 15 * nt
            for i in range(q):
                cases.append((ai, bi, i, q))
            q = 40 * nt
            for i in range(q):
                cases.append((ai, ai, i, q))
    _CACHE[key] = cases
    return cases


def ext_spec(prop, j):
    c = ext_cases(prop)[j]
    if prop == "C12":
        si, qi, q = c
        items = _programs()[si]
        p1 = list(CLASH_PROBES[H("xp1", j) % len(CLASH_PROBES)])
        obj = "P0" if j % 2 else "P1"
        ops = [
            {"op": "parse", "obj": obj, "filename": "a.c", "items": list(items), "fault": {"kind": "line-abort", "at_fraction": [qi, q], "exc": EXCS[j % 3]}},
            {"op": "parse", "obj": obj, "filename": "probe.c", "items": p1},
            {"op": "parse", "obj": obj, "filename": "a.c", "items": list(items)},
        ]
        return {"property": "C12", "mode": "token", "check_fresh": True, "policy": {"kind": "rtc"},
                "actors": [{"reuse": True, "ops": ops}], "swarm": {"faulty": True, "style": "sweep:dense-line-abort"}}
    ai, bi, qi, q = c
    progs = _pair_programs()
    actors = [
        {"reuse": False, "ops": [{"op": "parse", "filename": "act0.c", "items": list(progs[ai]), "obj": "P1" if j % 2 else "P0"}], "kind": "dense"},
        {"reuse": False, "ops": [{"op": ["parse", "roundtrip"][j % 2], "filename": "act1.c", "items": list(progs[bi])}], "kind": "dense"},
    ]
    for i, a in enumerate(actors):
        a["markers"] = {"strings": ["act%d.c" % i], "line_block": None, "not_for": {}}
    return {"property": "C13", "mode": "line", "policy": {"kind": "sweep"}, "schedule": [[0, 1 << 40], [1, 1 << 40]],
            "schedule_at_fraction": [qi, q],
            "actors": actors, "check_fresh": False, "swarm": {"faulty": False, "theme": "sweep:dense-line"}}
