"""Pristine pycparser module state on demand.

`install(repo)` puts a meta-path finder first that serves `pycparser` and its
sub-modules from <repo>/pycparser, compiling each source file once per process
(code objects are immutable and keep their real file names, so tracing and
tracebacks work).  `fresh()` throws the current module objects away and
executes the module bodies again into brand-new module objects: every class,
table, default argument, class attribute and module global is new, exactly as
after a first import.  This is the unit of isolation for runs and baselines
("one pristine module set per baseline"); the fork-based isolation of proc.py
wraps the same call in a new process and is used to confirm every violation
and by the determinism self-test (see DESIGN.md section 3.1 for why fork is not
used for every run in this sandbox).
"""
import builtins
import importlib.abc
import importlib.machinery
import os
import sys

from . import simsync
from .common import HarnessError

_real_import = builtins.__import__


def _sim_import(name, globals=None, locals=None, fromlist=(), level=0):
    """__import__ as seen by the code under test: `threading` / `_thread`
    resolve to cooperative stand-ins (sim/simsync.py); everything else is the
    real import."""
    if level == 0 and name in simsync.SHIMS:
        return simsync.SHIMS[name]
    return _real_import(name, globals, locals, fromlist, level)


_SIM_BUILTINS = dict(builtins.__dict__)
_SIM_BUILTINS["__import__"] = _sim_import

_FINDER = None


class _Finder(importlib.abc.MetaPathFinder, importlib.abc.Loader):
    def __init__(self, repo):
        self.repo = os.path.realpath(repo)
        self.pkgdir = os.path.join(self.repo, "pycparser")
        self.codes = {}
        self.mtimes = {}

    def find_spec(self, name, path=None, target=None):
        if name != "pycparser" and not name.startswith("pycparser."):
            return None
        if name == "pycparser":
            fn = os.path.join(self.pkgdir, "__init__.py")
            spec = importlib.machinery.ModuleSpec(name, self, origin=fn, is_package=True)
            spec.submodule_search_locations = [self.pkgdir]
        else:
            rel = name.split(".")[1:]
            fn = os.path.join(self.pkgdir, *rel) + ".py"
            if not os.path.exists(fn):
                pk = os.path.join(self.pkgdir, *rel, "__init__.py")
                if not os.path.exists(pk):
                    return None
                spec = importlib.machinery.ModuleSpec(name, self, origin=pk, is_package=True)
                spec.submodule_search_locations = [os.path.dirname(pk)]
                spec.has_location = True
                return spec
            spec = importlib.machinery.ModuleSpec(name, self, origin=fn)
        spec.has_location = True
        return spec

    def create_module(self, spec):
        return None

    def exec_module(self, module):
        fn = module.__spec__.origin
        code = self.codes.get(fn)
        if code is None:
            with open(fn, encoding="utf-8") as f:
                src = f.read()
            code = self.codes[fn] = compile(src, fn, "exec", dont_inherit=True)
        module.__file__ = fn
        module.__dict__["__builtins__"] = _SIM_BUILTINS
        exec(code, module.__dict__)


def install(repo):
    global _FINDER
    repo = os.path.realpath(repo)
    if _FINDER is not None:
        if _FINDER.repo != repo:
            raise HarnessError("loader already installed for %s" % _FINDER.repo)
        return
    if not os.path.isfile(os.path.join(repo, "pycparser", "__init__.py")):
        raise HarnessError("no pycparser package under %s" % repo)
    sys.dont_write_bytecode = True
    _FINDER = _Finder(repo)
    sys.meta_path.insert(0, _FINDER)
    _purge()
    # compile (not execute) every module now, so that forked children inherit the code objects
    for fn in sorted(os.listdir(_FINDER.pkgdir)):
        if fn.endswith(".py") and fn != "_ast_gen.py":
            path = os.path.join(_FINDER.pkgdir, fn)
            try:
                with open(path, encoding="utf-8") as f:
                    _FINDER.codes[path] = compile(f.read(), path, "exec", dont_inherit=True)
            except SyntaxError:
                pass  # reported when the module is actually imported


def _purge():
    for m in [m for m in sys.modules if m == "pycparser" or m.startswith("pycparser.")]:
        del sys.modules[m]


class Pyc:
    """Handle on one pristine set of pycparser modules."""

    def __init__(self, finder):
        import pycparser
        from pycparser import ast_transforms, c_ast, c_generator, c_lexer, c_parser  # noqa: F401

        root = finder.pkgdir
        got = os.path.realpath(os.path.dirname(pycparser.__file__))
        if got != root:
            raise HarnessError("pycparser imported from %s, expected %s" % (got, root))
        self.prefix = root + os.sep
        self.pycparser = pycparser
        self.c_ast = c_ast
        self.c_generator = c_generator
        self.c_lexer = c_lexer
        self.c_parser = c_parser
        self.Node = c_ast.Node
        self.visitor_classes = {}


def fresh():
    if _FINDER is None:
        raise HarnessError("loader.install() was not called")
    _purge()
    return Pyc(_FINDER)
