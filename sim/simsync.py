"""Cooperative stand-ins for `threading` primitives, served to the code under
test (and only to it) when it imports `threading` / `_thread`.

pycparser uses no locks today.  If a change adds one (say a module-level lock
around a shared cache, or around parse()), real locks would dead-lock the
baton scheduler: the holder is parked at a yield point and the next actor
blocks in the kernel.  These versions never block in the kernel while a run is
in progress: a failed acquire becomes a scheduling point ("blocked: somebody
else must run"), decided by the run's scheduler like every other step, so runs
stay deterministic and replayable.  Outside a run they behave like the real
thing.
"""
import _thread
import threading as _real_threading

CURRENT = None  # the World of the run in progress (set by engine.execute)


def _actor():
    w = CURRENT
    if w is None:
        return None, None
    return w, w.by_thread.get(_thread.get_ident())


class NestInfeasible(BaseException):
    """A call nested on the actor's own thread would wait for a lock that only its
    own outer call can release: this interleaving cannot be scheduled at all (a
    lock restricts the schedules, it is not a result), so the nesting is given up
    and the inner call is made after the outer one."""


def _wait_until(obj, try_once, blocking=True, timeout=-1):
    if try_once():
        return True
    if not blocking:
        return False
    w, a = _actor()
    if a is None:
        return None  # caller falls back to the real primitive
    if getattr(a, "in_nested", False) and (
        getattr(obj, "_owner_actor", None) is a
        or not [x for x in w.sched._runnable() if x is not a]
    ):
        raise NestInfeasible()
    if timeout is not None and timeout >= 0:
        # a timed wait inside the simulation: one scheduling point, then report the outcome
        w.sched.yield_point(a)
        return try_once()
    while True:
        w.sched.yield_blocked(a, obj)  # not runnable until obj is released
        if try_once():
            return True


def _released(obj):
    w = CURRENT
    if w is not None:
        w.sched.unblock(obj)


def _held(delta):
    """Book-keeping for the fault injector: injected asynchronous aborts are
    deferred while the actor holds a simulated lock (Python's `with lock:` is not
    safe against an exception raised on the line event just before __exit__; code
    that uses locks correctly must not be blamed for that)."""
    w, a = _actor()
    if a is not None:
        a.held_locks = max(0, a.held_locks + delta)


class Lock:
    def __init__(self):
        self._l = _thread.allocate_lock()

    def acquire(self, blocking=True, timeout=-1):
        r = _wait_until(self, lambda: self._l.acquire(False), blocking, timeout)
        if r is None:
            r = self._l.acquire(blocking, timeout)
        if r:
            _held(+1)
            self._owner_actor = _actor()[1]
        return r

    def release(self):
        self._owner_actor = None
        self._l.release()
        _held(-1)
        _released(self)

    def locked(self):
        return self._l.locked()

    __enter__ = acquire

    def __exit__(self, *exc):
        self.release()
        return False


class RLock:
    def __init__(self):
        self._l = _thread.allocate_lock()
        self._owner = None
        self._count = 0

    def acquire(self, blocking=True, timeout=-1):
        me = _thread.get_ident()
        if self._owner == me:
            self._count += 1
            return True
        r = _wait_until(self, lambda: self._l.acquire(False), blocking, timeout)
        if r is None:
            r = self._l.acquire(blocking, timeout)
        if r:
            self._owner = me
            self._count = 1
            _held(+1)
        return r

    def release(self):
        if self._owner != _thread.get_ident():
            raise RuntimeError("cannot release un-acquired lock")
        self._count -= 1
        if self._count == 0:
            self._owner = None
            self._l.release()
            _held(-1)
            _released(self)

    __enter__ = acquire

    def __exit__(self, *exc):
        self.release()
        return False


class Semaphore:
    def __init__(self, value=1):
        if value < 0:
            raise ValueError("semaphore initial value must be >= 0")
        self._value = value

    def _try(self):
        if self._value > 0:
            self._value -= 1
            return True
        return False

    def acquire(self, blocking=True, timeout=None):
        r = _wait_until(self, self._try, blocking, -1 if timeout is None else timeout)
        if r is None:
            raise RuntimeError("simulated Semaphore would block outside a simulated run")
        return r

    def release(self, n=1):
        self._value += n
        _released(self)

    __enter__ = acquire

    def __exit__(self, *exc):
        self.release()
        return False


class BoundedSemaphore(Semaphore):
    def __init__(self, value=1):
        super().__init__(value)
        self._initial = value

    def release(self, n=1):
        if self._value + n > self._initial:
            raise ValueError("Semaphore released too many times")
        self._value += n
        _released(self)


class Event:
    def __init__(self):
        self._flag = False

    def is_set(self):
        return self._flag

    def set(self):
        self._flag = True
        _released(self)

    def clear(self):
        self._flag = False

    def wait(self, timeout=None):
        r = _wait_until(self, lambda: self._flag, True, -1 if timeout is None else timeout)
        if r is None:
            raise RuntimeError("simulated Event would block outside a simulated run")
        return r


class Condition:
    """Cooperative threading.Condition on top of the cooperative locks."""

    def __init__(self, lock=None):
        self._lock = lock if lock is not None else RLock()
        self._waiting = []
        self.acquire = self._lock.acquire
        self.release = self._lock.release

    def __enter__(self):
        return self._lock.__enter__()

    def __exit__(self, *exc):
        return self._lock.__exit__(*exc)

    def _release_save(self):
        lk = self._lock
        if isinstance(lk, RLock):
            n = lk._count
            lk._count = 1
            lk.release()
            return n
        lk.release()
        return 1

    def _acquire_restore(self, n):
        lk = self._lock
        lk.acquire()
        if isinstance(lk, RLock):
            lk._count = n

    def wait(self, timeout=None):
        token = [False]
        self._waiting.append(token)
        saved = self._release_save()
        try:
            r = _wait_until(self, lambda: token[0], True, -1 if timeout is None else timeout)
            if r is None:
                raise RuntimeError("simulated Condition would block outside a simulated run")
            return r
        finally:
            if token in self._waiting:
                self._waiting.remove(token)
            self._acquire_restore(saved)

    def wait_for(self, predicate, timeout=None):
        result = predicate()
        while not result:
            if not self.wait(timeout) and timeout is not None:
                return predicate()
            result = predicate()
        return result

    def notify(self, n=1):
        for token in self._waiting[:n]:
            token[0] = True
        del self._waiting[:n]
        _released(self)

    def notify_all(self):
        self.notify(len(self._waiting))


_OVERRIDES = {
    "Lock": Lock,
    "RLock": RLock,
    "Semaphore": Semaphore,
    "BoundedSemaphore": BoundedSemaphore,
    "Event": Event,
    "Condition": Condition,
    "allocate_lock": Lock,
    "_allocate_lock": Lock,
    "LockType": Lock,
}


class _Shim:
    """Looks like the module it wraps, except for the primitives above."""

    def __init__(self, real):
        object.__setattr__(self, "_real", real)

    def __getattr__(self, name):
        if name in _OVERRIDES and hasattr(self._real, name):
            return _OVERRIDES[name]
        return getattr(self._real, name)

    def __setattr__(self, name, value):
        setattr(self._real, name, value)


SHIMS = {"threading": _Shim(_real_threading), "_thread": _Shim(_thread)}
