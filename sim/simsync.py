"""Cooperative stand-ins for `threading` primitives, served to the code under
test (and only to it) when it imports `threading` / `_thread`.

pycparser uses no locks today.  If a change adds one (say a module-level lock
around a shared cache, or around parse()), real locks would dead-lock the
baton scheduler: the holder is parked at a yield point and the next actor
blocks in the kernel.  These versions never block in the kernel while a run is
in progress: a failed acquire becomes a scheduling point ("blocked: somebody
else must run"), decided by the run's scheduler like every other step, so runs
stay deterministic and replayable.  Outside a run they behave like the real
thing.
"""
import _thread
import threading as _real_threading

CURRENT = None  # the World of the run in progress (set by engine.execute)


def _actor():
    w = CURRENT
    if w is None:
        return None, None
    return w, w.by_thread.get(_thread.get_ident())


def _wait_until(obj, try_once, blocking=True, timeout=-1):
    if try_once():
        return True
    if not blocking:
        return False
    w, a = _actor()
    if a is None:
        return None  # caller falls back to the real primitive
    if timeout is not None and timeout >= 0:
        # a timed wait inside the simulation: one scheduling point, then report the outcome
        w.sched.yield_point(a)
        return try_once()
    while True:
        w.sched.yield_blocked(a, obj)  # not runnable until obj is released
        if try_once():
            return True


def _released(obj):
    w = CURRENT
    if w is not None:
        w.sched.unblock(obj)


class Lock:
    def __init__(self):
        self._l = _thread.allocate_lock()

    def acquire(self, blocking=True, timeout=-1):
        r = _wait_until(self, lambda: self._l.acquire(False), blocking, timeout)
        if r is None:
            return self._l.acquire(blocking, timeout)
        return r

    def release(self):
        self._l.release()
        _released(self)

    def locked(self):
        return self._l.locked()

    __enter__ = acquire

    def __exit__(self, *exc):
        self.release()
        return False


class RLock:
    def __init__(self):
        self._l = _thread.allocate_lock()
        self._owner = None
        self._count = 0

    def acquire(self, blocking=True, timeout=-1):
        me = _thread.get_ident()
        if self._owner == me:
            self._count += 1
            return True
        r = _wait_until(self, lambda: self._l.acquire(False), blocking, timeout)
        if r is None:
            r = self._l.acquire(blocking, timeout)
        if r:
            self._owner = me
            self._count = 1
        return r

    def release(self):
        if self._owner != _thread.get_ident():
            raise RuntimeError("cannot release un-acquired lock")
        self._count -= 1
        if self._count == 0:
            self._owner = None
            self._l.release()
            _released(self)

    __enter__ = acquire

    def __exit__(self, *exc):
        self.release()
        return False


class Semaphore:
    def __init__(self, value=1):
        if value < 0:
            raise ValueError("semaphore initial value must be >= 0")
        self._value = value

    def _try(self):
        if self._value > 0:
            self._value -= 1
            return True
        return False

    def acquire(self, blocking=True, timeout=None):
        r = _wait_until(self, self._try, blocking, -1 if timeout is None else timeout)
        if r is None:
            raise RuntimeError("simulated Semaphore would block outside a simulated run")
        return r

    def release(self, n=1):
        self._value += n
        _released(self)

    __enter__ = acquire

    def __exit__(self, *exc):
        self.release()
        return False


class BoundedSemaphore(Semaphore):
    def __init__(self, value=1):
        super().__init__(value)
        self._initial = value

    def release(self, n=1):
        if self._value + n > self._initial:
            raise ValueError("Semaphore released too many times")
        self._value += n
        _released(self)


class Event:
    def __init__(self):
        self._flag = False

    def is_set(self):
        return self._flag

    def set(self):
        self._flag = True
        _released(self)

    def clear(self):
        self._flag = False

    def wait(self, timeout=None):
        r = _wait_until(self, lambda: self._flag, True, -1 if timeout is None else timeout)
        if r is None:
            raise RuntimeError("simulated Event would block outside a simulated run")
        return r


_OVERRIDES = {
    "Lock": Lock,
    "RLock": RLock,
    "Semaphore": Semaphore,
    "BoundedSemaphore": BoundedSemaphore,
    "Event": Event,
    "allocate_lock": Lock,
    "_allocate_lock": Lock,
    "LockType": Lock,
}


class _Shim:
    """Looks like the module it wraps, except for the primitives above."""

    def __init__(self, real):
        object.__setattr__(self, "_real", real)

    def __getattr__(self, name):
        if name in _OVERRIDES and hasattr(self._real, name):
            return _OVERRIDES[name]
        return getattr(self._real, name)

    def __setattr__(self, name, value):
        setattr(self._real, name, value)


SHIMS = {"threading": _Shim(_real_threading), "_thread": _Shim(_thread)}
