"""Pristine child processes.

`call_in_child(fn, arg, timeout)` forks the calling process (a "zygote" that has
imported but never executed pycparser), runs fn(arg) in the child, and returns
its pickled result.  The child is killed after `timeout` seconds; that, a
crash, or an exception escaping fn is a HarnessError (never a verdict).
"""
import faulthandler
import os
import pickle
import select
import signal
import struct
import sys
import time
import traceback

from .common import HarnessError


def _read_all(fd, deadline):
    chunks = []
    while True:
        left = deadline - time.monotonic()
        if left <= 0:
            return None
        r, _, _ = select.select([fd], [], [], min(left, 1.0))
        if not r:
            continue
        b = os.read(fd, 1 << 20)
        if not b:
            return b"".join(chunks)
        chunks.append(b)


def call_in_child(fn, arg, timeout=60.0, what="child"):
    rfd, wfd = os.pipe()
    sys.stdout.flush()
    sys.stderr.flush()
    pid = os.fork()
    if pid == 0:
        # ---- child ----
        code = 0
        try:
            os.close(rfd)
            faulthandler.enable()
            faulthandler.dump_traceback_later(timeout, exit=True)
            try:
                res = ("ok", fn(arg))
            except BaseException as e:  # harness problem inside the child
                res = ("err", "%s: %s\n%s" % (type(e).__name__, e, traceback.format_exc()))
            data = pickle.dumps(res, protocol=pickle.HIGHEST_PROTOCOL)
            with os.fdopen(wfd, "wb") as f:
                f.write(struct.pack("<Q", len(data)))
                f.write(data)
        except BaseException:
            code = 3
            try:
                traceback.print_exc()
            except BaseException:
                pass
        finally:
            try:
                sys.stdout.flush()
                sys.stderr.flush()
            except BaseException:
                pass
            os._exit(code)
    # ---- parent ----
    os.close(wfd)
    deadline = time.monotonic() + timeout + 5.0
    try:
        data = _read_all(rfd, deadline)
    finally:
        os.close(rfd)
    if data is None:
        try:
            os.kill(pid, signal.SIGKILL)
        except ProcessLookupError:
            pass
        os.waitpid(pid, 0)
        raise HarnessError("%s: timeout after %.0fs" % (what, timeout))
    _, status = os.waitpid(pid, 0)
    if len(data) < 8:
        raise HarnessError("%s: died without result (status %r)" % (what, status))
    (n,) = struct.unpack("<Q", data[:8])
    if len(data) - 8 != n:
        raise HarnessError("%s: truncated result (status %r)" % (what, status))
    kind, val = pickle.loads(data[8:])
    if kind != "ok":
        raise HarnessError("%s: exception in child:\n%s" % (what, val))
    return val
