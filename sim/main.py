"""Command line driver.

  main.py C12|C13 quick|thorough [--repo DIR] [--seed N] [--budget S] [--workers N]
  main.py C12|C13 --replay FILE [--repo DIR]
  main.py --digests PROP SEED TIER i,j,k [--repo DIR] [--workers N]   (internal)
  main.py selftest [--mutants a,b,...]

Exit 0: property held on everything explored.  Exit 1: a line
`VIOLATION property=<id> replay=<path>` was printed.  Exit 2: HARNESS-ERROR
(timeout, crash of the machinery, non-determinism detected) - never a verdict.
"""
import argparse
import concurrent.futures as cf
import json
import multiprocessing as mp
import os
import subprocess
import sys
import time

HERE = os.path.dirname(os.path.abspath(__file__))
sys.path.insert(0, os.path.dirname(HERE))

from sim import c12, c13, minimise, proc, runner, sweep, workload  # noqa: E402
from sim.common import (  # noqa: E402
    ENGINE_VERSION,
    EXIT_HARNESS,
    EXIT_OK,
    EXIT_VIOLATION,
    VERIF_DIR,
    HarnessError,
    digest,
    eprint,
    jdump,
    jload,
)

TIERS = {
    "quick": {"budget_s": 50, "max_runs": 200000, "det_samples": 24, "line_fraction": 0.4, "long_fraction": 0.0, "n_sweep": {"C12": 1500, "C13": 3000}},
    "thorough": {"budget_s": 1500, "max_runs": 5000000, "det_samples": 200, "line_fraction": 0.4, "long_fraction": 0.03, "n_sweep": {"C12": 10 ** 9, "C13": 10 ** 9}},
}


def build_cfg(repo, tier):
    t = TIERS[tier]
    files = workload.corpus_files(repo, long_inputs=(tier == "thorough"))
    cfg = {
        "tier": tier,
        "snippets": workload.harvest_test_snippets(repo),
        "corpus": [(n, workload.split_items(x)) for n, x in files if len(x) < 8000],
        "line_fraction": t["line_fraction"],
        "long_fraction": t["long_fraction"],
        "n_samples": 3,
        "n_sweep": t["n_sweep"],
        "run_timeout": 120 if tier == "quick" else 600,
    }
    if tier == "thorough":
        cfg["ext_sweep"] = True
        cfg["ext_sweep_from"] = None  # set per property in cmd_check: right after the interleaved core sweep
        cfg["long_corpus"] = [(n, workload.split_items(x)) for n, x in files if len(x) >= 8000]
        cfg["corpus"] += [(n, workload.split_items(x)) for n, x in files if 8000 <= len(x) < 40000]
    return cfg


def _init(repo, cfg, isolation, counter, fork_workers):
    # the first `fork_workers` workers to start use process isolation for every
    # run and baseline (they never execute pycparser themselves: true zygotes)
    if counter is not None:
        with counter.get_lock():
            i = counter.value
            counter.value += 1
        if i < fork_workers:
            isolation = "fork"
    runner.init_worker(repo, cfg, isolation)


def make_pool(repo, cfg, workers, isolation="reimport", fork_workers=0):
    ctx = mp.get_context("fork")
    counter = ctx.Value("i", 0) if fork_workers else None
    return cf.ProcessPoolExecutor(max_workers=workers, mp_context=ctx, initializer=_init, initargs=(repo, cfg, isolation, counter, fork_workers))


# --------------------------------------------------------------------------
def load_known(prop):
    p = os.path.join(VERIF_DIR, "known_findings.json")
    try:
        data = jload(p)
    except FileNotFoundError:
        return []
    return [f for f in data.get("findings", []) if f.get("property") == prop]


def known_match(finding, viol, spec):
    """A listed finding suppresses exactly the violation it identifies: same
    kind and the identifying text fragment present in the failing op's input."""
    if finding.get("status") != "open":
        return False
    m = finding.get("match") or {}
    if m.get("kind") and m["kind"] != viol.get("kind"):
        return False
    frag = m.get("input_contains")
    if frag:
        texts = ["\n".join(op.get("items", [])) for a in spec["actors"] for op in a["ops"]]
        if not any(frag in t for t in texts):
            return False
    return True


# --------------------------------------------------------------------------
class Agg:
    def __init__(self):
        self.runs = 0
        self.ops = 0
        self.compared = 0
        self.steps = 0
        self.switches = 0
        self.lines = 0
        self.tokens = 0
        self.probes = {}
        self.fired = {}
        self.cases = set()
        self.nontrivial_cases = set()
        self.schedules = set()
        self.switch_sites = {}
        self.samples = []
        self.violations = []
        self.harness_errors = []
        self.digests = {}
        self.faulty_runs = 0
        self.sweep_runs = 0
        self.fork_runs = 0
        self.wall_sum = 0.0

    def add(self, s):
        if "harness_error" in s:
            self.harness_errors.append((s["index"], s["harness_error"]))
            return
        self.runs += 1
        self.ops += s["n_ops"]
        self.compared += s["n_compared"]
        self.steps += s["steps"]
        self.switches += s.get("switches", 0)
        self.lines += s["lines"]
        self.tokens += s["tokens"]
        self.wall_sum += s["wall"]
        self.faulty_runs += 1 if s.get("faulty") else 0
        self.sweep_runs += 1 if s.get("sweep") else 0
        self.fork_runs += 1 if s.get("isolation") == "fork" else 0
        for k, v in s["probes"].items():
            self.probes[k] = self.probes.get(k, 0) + v
        for k, v in s["fired"].items():
            self.fired[k] = self.fired.get(k, 0) + v
        self.cases.add(s["case_digest"])
        if s["nontrivial_hits"]:
            self.nontrivial_cases.add(s["case_digest"])
        if "schedule_digest" in s:
            self.schedules.add(s["schedule_digest"])
        for k, v in (s.get("switch_sites") or {}).items():
            self.switch_sites[k] = self.switch_sites.get(k, 0) + v
        if "sample" in s:
            self.samples.append((s["index"], s["sample"]))
        self.digests[s["index"]] = s["digest"]
        if not s["ok"]:
            self.violations.append(s)


RULES = {
    "C12": "Each evaluation is one seeded history of 2-30 operations (parse / parse_file through a fake file system and cpp / standalone lex / generate with CGenerator and user-style subclasses) on long-lived CParser, CLexer and CGenerator objects, with input faults (truncation, illegal fragment, bracket damage, failing snippets), asynchronous aborts at token or line granularity, I/O faults (open / decode error, short read, cpp missing or failing), lowered recursion limits and abandoned lexers; every non-aborted operation is compared with the same operation alone in a pristine process and with a brand-new instance in the used process. A case is the digest of (operations, texts, file names, fault plan); it is non-trivial when at least one compared operation follows, on the same object, an operation that failed, was aborted or (generator) emitted a nested construct.",
    "C13": "Each evaluation is one seeded run of 2-4 actors (parsers through the scheduling lexer, parse->generate->reparse chains, parse_file, generators and generator subclasses, NodeVisitor class hierarchies, standalone lexers) interleaved by the baton scheduler at token or line granularity under a drawn policy, with optional crash / stall of one actor; every actor's outcomes and token logs are compared with its script alone in a pristine process and leak witnesses are searched. A case is the digest of (mode, scripts, fault plan, executed schedule); it is non-trivial when at least two actors were pre-empted strictly inside an operation and their programs use a common name of the clashing alphabet.",
}

COMPONENTS = {
    "real_code": ["pycparser/c_parser.py", "pycparser/c_lexer.py", "pycparser/c_ast.py", "pycparser/c_generator.py", "pycparser/ast_transforms.py", "pycparser/__init__.py parse_file / preprocess_file (all from the working tree given by --repo)"],
    "simulator_owned": ["baton scheduler (sim/engine.py)", "delegating CLexer subclass injected through the public lexer= parameter", "sys.settrace line hook", "fault plans", "fresh module set per run and per baseline (fresh forked process for confirmation, replay and the determinism self-test)"],
    "stubbed": ["file system behind parse_file: fake `io.open` in the package namespace (virtual file per actor; open error, decode error, short read)", "the cpp subprocess behind preprocess_file: fake `check_output` (adds line markers; missing binary, non-zero exit, short output)"],
    "not_exercised": ["the real cpp binary", "pycparser/_ast_gen.py"],
}


def write_evidence(prop, tier, seed, agg, wall, det, extra_assumptions=()):
    runs_per_hour = agg.runs / wall * 3600 if wall > 0 else 0
    zero = [k for k in EXPECTED_PROBES[prop] if not agg.probes.get(k)]
    cov = {
        "evaluations": agg.runs,
        "distinct_nontrivial": len(agg.nontrivial_cases),
        "rule": RULES[prop],
        "samples": [s for _, s in sorted(agg.samples, key=lambda x: x[0])[:3]],
        "distinct_cases": len(agg.cases),
        "operations": agg.ops,
        "operations_compared_with_pristine_baseline": agg.compared,
        "simulated_steps": agg.steps,
        "simulated_time": "logical steps only: %d scheduler steps (yield points), %d token events, %d line events; pycparser has no clock" % (agg.steps, agg.tokens, agg.lines),
        "context_switches": agg.switches,
        "distinct_schedules": len(agg.schedules),
        "distinct_switch_site_pairs": len(agg.switch_sites),
        "runs_per_hour": int(runs_per_hour),
        "seeds": {"VERIF_SEED": seed, "runs": "run i uses PRNG H('run', property, VERIF_SEED, i), i = 0..%d" % max(0, agg.runs - 1)},
        "faults_fired": dict(sorted(agg.fired.items())),
        "systematic_sweep": {"cases_total": sweep.n_cases(prop), "dense_line_sweep_cases_thorough_only": len(sweep.ext_cases(prop)), "cases_run": agg.sweep_runs, "what": "enumerated fault points (C12: truncation / seam-abort / abandoned lexer at every token boundary of every construct snippet, line-abort ladder) or pre-emption points (C13: A runs k steps, B runs to completion, A finishes, for every k; generator / visitor pairs at line granularity with stride 9); a quick run covers a seed-dependent slice, a thorough run all of them"},
        "isolation": {"runs_on_fresh_module_sets": agg.runs - agg.fork_runs, "runs_with_every_execution_in_a_freshly_forked_process": agg.fork_runs, "note": "a few workers never execute pycparser themselves and fork a pristine child for the run and for each baseline; this covers state a change might park outside the pycparser modules"},
        "fault_injecting_runs": agg.faulty_runs,
        "fault_free_runs": agg.runs - agg.faulty_runs,
        "probes": dict(sorted(agg.probes.items())),
        "probes_stuck_at_zero": zero,
        "determinism_selftest": det,
        "components": COMPONENTS,
        "engine_version": ENGINE_VERSION,
        "exhaustive": False,
    }
    ev = {
        "property_id": prop,
        "tier": tier,
        "seed": seed,
        "level": "exploration",
        "coverage": cov,
        "assumptions": [
            "sampling, not enumeration: a clean batch is evidence, not proof",
            "pre-emption granularity is a source line (token() call in token mode); a race window inside one line is out of reach",
            "CPython 3.12 /venv/bin/python; C extensions (re) are atomic",
            "baselines are the implementation itself run alone in a pristine forked process; the oracle has no opinion about C",
        ] + list(extra_assumptions),
        "wall_s": round(wall, 2),
        "violations": len(agg.violations),
    }
    evdir = os.environ.get("VERIF_EVIDENCE_DIR") or os.path.join(VERIF_DIR, "evidence")
    os.makedirs(evdir, exist_ok=True)
    jdump(ev, os.path.join(evdir, prop + ".json"))
    jdump(ev, os.path.join(evdir, "%s.%s.json" % (prop, tier)))  # kept per tier as well
    return zero


EXPECTED_PROBES = {
    "C12": ["abort_with_open_scopes", "abort_with_pending_pragma_token", "abort_inside_speculative_parse", "later_op_uses_name_a_failed_op_declared", "same_text_parsed_twice", "filename_changed_between_calls", "failed_with_open_scopes", "lexer_abandoned_with_pending_token", "gen_node:FuncDef", "gen_node:Struct", "gen_node:Enum", "gen_node:Compound"],
    "C13": ["switch_conflicting_typedef_meaning", "switch_with_lookahead", "switch_inside_scope", "line_switch_inside_visit_Compound", "line_switch_inside_NodeVisitor_visit", "actor_reuses_own_instances"],
}


# --------------------------------------------------------------------------
def _minimise_child(arg):
    spec, kind = arg
    runner.set_isolation("reimport")
    return minimise.minimise(spec, kind, runner.evaluate, max_cands=600, max_s=90.0)


def _replay_subprocess(prop, path, repo):
    """Replay a file exactly the way a user would: in a fresh interpreter.
    Returns (reproduced, violations_printed)."""
    cmd = [sys.executable, os.path.abspath(__file__), prop, "--replay", path, "--repo", repo, "--json"]
    try:
        p = subprocess.run(cmd, capture_output=True, text=True, timeout=400)
    except subprocess.TimeoutExpired:
        return False, None
    info = None
    for line in p.stdout.splitlines():
        if line.startswith("REPLAY-JSON "):
            try:
                info = json.loads(line[len("REPLAY-JSON "):])
            except ValueError:
                pass
    return p.returncode == EXIT_VIOLATION and bool(info and info.get("same_kind")), info


def _make_replay(prop, spec, kind, viols, stats, isolation):
    v0 = next((v for v in viols if v["kind"] == kind), viols[0])
    return {
        "property": prop,
        "kind": kind,
        "engine": ENGINE_VERSION,
        "seed": spec.get("seed"),
        "run_index": spec.get("run_index"),
        "replay_isolation": isolation,
        "violation": v0,
        "all_violations": [{k: v for k, v in x.items() if k in ("kind", "actor", "op", "detail")} for x in viols][:10],
        "minimisation": stats,
        "spec": spec,
        "how_to_replay": "./check %s --replay <this file>   (expected outcomes are recomputed from the tree, not stored)" % prop,
    }


def report_violation(prop, s, repo, cfg):
    """Confirm a failing run by replaying it in a fresh interpreter (process
    isolation first, then in-process module isolation), minimise it, confirm the
    minimised run the same way, write the replay file.  Raises HarnessError
    '...does not reproduce...' if no replay of the run reproduces."""
    spec = s["spec"]
    kind = s["violations"][0]["kind"]
    t0 = time.time()
    d = os.environ.get("VERIF_REPLAY_DIR") or os.path.join(VERIF_DIR, "replays")
    os.makedirs(d, exist_ok=True)
    path = os.path.join(d, "%s-%s-%s.json" % (prop, spec.get("seed"), spec.get("run_index")))
    confirmed = None
    for isolation in ("fork", "reimport"):
        jdump(_make_replay(prop, spec, kind, s["violations"], {"note": "not minimised"}, isolation), path)
        ok, info = _replay_subprocess(prop, path, repo)
        if ok:
            confirmed = isolation
            break
    if confirmed is None:
        try:
            os.remove(path)
        except OSError:
            pass
        raise HarnessError("violation kind %s of run %s found during the search does not reproduce in a freshly forked process nor in a fresh interpreter" % (kind, s["index"]))
    # shrink with the cheap in-process isolation inside one forked child (so that a
    # hang of a candidate cannot hang the check), then confirm by a real replay
    runner.init_worker(repo, cfg, "fork")
    try:
        small, stats = proc.call_in_child(_minimise_child, (spec, kind), timeout=240, what="minimiser")
    except HarnessError as e:
        small, stats = None, {"note": "minimiser stopped: %s" % str(e)[:300]}
    rep = None
    if small is not None:
        stats["seconds"] = round(time.time() - t0, 1)
        small_path = path + ".min"
        for isolation in (confirmed, "reimport" if confirmed == "fork" else "fork"):
            jdump(_make_replay(prop, small, kind, s["violations"], stats, isolation), small_path)
            ok, info = _replay_subprocess(prop, small_path, repo)
            if ok:
                viols = (info or {}).get("violations") or s["violations"]
                rep = _make_replay(prop, small, kind, viols, stats, isolation)
                break
        try:
            os.remove(small_path)
        except OSError:
            pass
        if rep is None:
            stats = {"note": "the minimised run did not reproduce in a fresh interpreter; reporting the unminimised one", "seconds": round(time.time() - t0, 1)}
    if rep is None:
        rep = _make_replay(prop, spec, kind, s["violations"], stats, confirmed)
    jdump(rep, path)
    return path, rep


def cmd_check(args):
    prop, tier = args.prop, args.tier
    t = TIERS[tier]
    budget = float(args.budget or os.environ.get("VERIF_BUDGET_S") or t["budget_s"])
    seed = int(args.seed if args.seed is not None else (os.environ.get("VERIF_SEED") or 0))
    workers = int(args.workers or os.environ.get("VERIF_WORKERS") or min(16, os.cpu_count() or 4))
    repo = os.path.realpath(args.repo)
    cfg = build_cfg(repo, tier)
    if cfg.get("ext_sweep"):
        cfg["ext_sweep_from"] = 2 * sweep.n_cases(prop) + 2000
    t0 = time.time()
    print("check %s tier=%s VERIF_SEED=%d repo=%s workers=%d budget=%.0fs engine=%d" % (prop, tier, seed, repo, workers, budget, ENGINE_VERSION))
    sys.stdout.flush()
    agg = Agg()
    # workers doing every execution in a freshly forked process: fork is serialised
    # system-wide here and two such workers cost a third of the total throughput,
    # so the quick tier relies on the determinism self-test below (which re-runs a
    # sample under fork isolation and compares verdicts too) and only the thorough
    # tier dedicates workers to it
    fork_workers = 2 if (tier == "thorough" and workers >= 4) else 0
    pool = make_pool(repo, cfg, workers, fork_workers=fork_workers)
    nxt = 0
    pending = set()
    stop = False
    max_runs = int(args.max_runs or t["max_runs"])
    chunk = 4
    first_viol_at = None
    try:
        while True:
            while not stop and len(pending) < workers * 2 and nxt < max_runs and time.time() - t0 < budget:
                n = min(chunk, max_runs - nxt)
                pending.add(pool.submit(runner.run_chunk, (prop, seed, nxt, n)))
                nxt += n
            if not pending:
                break
            done, pending = cf.wait(pending, timeout=300, return_when=cf.FIRST_COMPLETED)
            if not done:
                raise HarnessError("no run completed within 300 s")
            for f in done:
                for s in f.result():
                    agg.add(s)
                    if "harness_error" in s or (not s.get("ok", True)):
                        if len(agg.violations) >= 3 or agg.harness_errors:
                            stop = True
            if agg.violations:
                if first_viol_at is None:
                    first_viol_at = time.time()
                # a few more seconds for further failing runs (alternatives if the first
                # does not reproduce under process isolation), then report
                if time.time() - first_viol_at > 10 or time.time() - t0 > budget * 0.5:
                    stop = True
    except (HarnessError, cf.process.BrokenProcessPool) as e:
        print("HARNESS-ERROR %s: %s" % (prop, e))
        pool.shutdown(wait=False, cancel_futures=True)
        return EXIT_HARNESS
    pool.shutdown(wait=True)
    run_wall = time.time() - t0
    if agg.harness_errors:
        for idx, msg in agg.harness_errors[:3]:
            print("HARNESS-ERROR %s run=%d: %s" % (prop, idx, msg))
        return EXIT_HARNESS
    # determinism self-test: re-run a sample in a fresh interpreter with another
    # PYTHONHASHSEED and another worker count and compare event-log digests
    det = {"samples": 0, "mismatches": 0}
    if not args.no_det and agg.runs:
        idxs = sorted(agg.digests)[:: max(1, len(agg.digests) // t["det_samples"])][: t["det_samples"]]
        try:
            other = digests_subprocess(prop, seed, tier, idxs, repo, workers=3, hashseed="12345")
        except HarnessError as e:
            print("HARNESS-ERROR %s determinism self-test: %s" % (prop, e))
            return EXIT_HARNESS
        bad = [i for i in idxs if other.get(str(i)) != agg.digests[i]]
        det = {"samples": len(idxs), "mismatches": len(bad), "how": "same (seed, run index) executed again in a fresh interpreter with PYTHONHASHSEED=12345 and 3 workers; digests of schedule, outcomes, token logs and counters compared"}
        if bad:
            # The same runs behave differently with process isolation.  On a correct
            # tree that cannot happen; the usual cause is state that survives outside
            # the pycparser modules (on sys, builtins, a stdlib module), which the
            # in-process isolation does not reset and which therefore also hides the
            # defect from the in-process search.  Judge those runs under process
            # isolation here: a violation found that way is reported like any other.
            runner.init_worker(repo, cfg, "fork")
            found = []
            for i in bad[:8]:
                sres = runner.one_run((prop, seed, i))
                if "harness_error" not in sres and not sres.get("ok", True):
                    found.append(sres)
            if found:
                print("NOTE %s: %d sampled runs differ between in-process and process isolation; judged under process isolation" % (prop, len(bad)))
                agg.violations.extend(found)
                det["note"] = "isolation modes disagreed; runs re-judged under process isolation"
            else:
                print("HARNESS-ERROR %s non-deterministic runs: %s" % (prop, bad[:10]))
                write_evidence(prop, tier, seed, agg, time.time() - t0, det)
                return EXIT_HARNESS
    # violations
    known = load_known(prop)
    rc = EXIT_OK
    printed_known = set()
    real = []
    for s in agg.violations:
        matched = None
        for f in known:
            if all(known_match(f, v, s["spec"]) for v in s["violations"]):
                matched = f
                break
        if matched:
            printed_known.add(matched["id"])
        else:
            real.append(s)
    for f in known:
        if f.get("status") == "open":
            print("KNOWN-FINDING: property=%s %s" % (prop, f.get("what", f.get("id"))))
    # report the first failing run that reproduces in a freshly forked process
    # (a run found with the in-process isolation that does not reproduce there is
    # not believed; if none of them does, that is a harness error, not a verdict)
    real.sort(key=lambda s: s["index"])
    reported = None
    unconfirmed = []
    for s in real[:6]:
        try:
            path, rep = report_violation(prop, s, repo, cfg)
        except HarnessError as e:
            if "does not reproduce" in str(e):
                unconfirmed.append(s["index"])
                continue
            print("HARNESS-ERROR %s: %s" % (prop, e))
            return EXIT_HARNESS
        reported = s
        print("VIOLATION property=%s replay=%s" % (prop, path))
        print("  kind=%s run=%d: %s" % (rep["kind"], s["index"], rep["violation"].get("detail")))
        rc = EXIT_VIOLATION
        break
    for s in real:
        if s is not reported:
            print("  (also failing: run %d, kinds %s%s - not minimised, re-run with --seed %d to reproduce)" % (s["index"], sorted({v["kind"] for v in s["violations"]}), " [did not reproduce under process isolation]" if s["index"] in unconfirmed else "", seed))
    if real and reported is None:
        print("HARNESS-ERROR %s: %d failing runs were found with in-process module isolation but none of the first %d reproduces in a freshly forked process" % (prop, len(real), len(unconfirmed)))
        return EXIT_HARNESS
    agg.violations = real
    wall = time.time() - t0
    zero = write_evidence(prop, tier, seed, agg, wall, det)
    print("%s %s: %d runs (%d distinct cases, %d non-trivial), %d ops (%d compared), %d steps, %d switches, %.0f runs/h, faults fired %s, violations %d, wall %.1fs" % (
        prop, tier, agg.runs, len(agg.cases), len(agg.nontrivial_cases), agg.ops, agg.compared, agg.steps, agg.switches, agg.runs / max(run_wall, 1e-9) * 3600, json.dumps(agg.fired, sort_keys=True), len(real), wall))
    if zero and tier == "thorough":
        print("WARNING probes stuck at zero: %s" % zero)
    return rc


def digests_subprocess(prop, seed, tier, idxs, repo, workers, hashseed):
    env = dict(os.environ)
    env["PYTHONHASHSEED"] = hashseed
    env.pop("VERIF_BUDGET_S", None)
    cmd = [sys.executable, os.path.abspath(__file__), "--digests", prop, str(seed), tier, ",".join(map(str, idxs)), "--repo", repo, "--workers", str(workers)]
    try:
        p = subprocess.run(cmd, env=env, capture_output=True, text=True, timeout=900)
    except subprocess.TimeoutExpired:
        raise HarnessError("digest subprocess timed out")
    if p.returncode != 0:
        raise HarnessError("digest subprocess failed: %s" % (p.stderr[-2000:] or p.stdout[-2000:]))
    line = [l for l in p.stdout.splitlines() if l.startswith("DIGESTS ")]
    if not line:
        raise HarnessError("digest subprocess printed nothing")
    return json.loads(line[-1][len("DIGESTS "):])


def cmd_digests(args):
    prop, seed, tier, idxs = args.digests
    seed = int(seed)
    idxs = [int(x) for x in idxs.split(",") if x]
    repo = os.path.realpath(args.repo)
    cfg = build_cfg(repo, tier)
    if cfg.get("ext_sweep"):
        cfg["ext_sweep_from"] = 2 * sweep.n_cases(prop) + 2000
    pool = make_pool(repo, cfg, int(args.workers or 3), isolation=args.isolation or "fork")
    out = {}
    for s in pool.map(runner.one_run, [(prop, seed, i) for i in idxs]):
        if "harness_error" in s:
            print("HARNESS-ERROR", s["harness_error"])
            return EXIT_HARNESS
        out[str(s["index"])] = s["digest"]
    pool.shutdown()
    print("DIGESTS " + json.dumps(out))
    return 0


def cmd_replay(args):
    repo = os.path.realpath(args.repo)
    rep = jload(args.replay)
    prop = rep["property"]
    cfg = {"tier": "quick", "run_timeout": 300}
    isolation = args.isolation or rep.get("replay_isolation") or "fork"
    runner.init_worker(repo, cfg, isolation)
    spec = rep["spec"]
    try:
        viols, result, _ = runner.evaluate(spec)
    except HarnessError as e:
        print("HARNESS-ERROR replay: %s" % e)
        return EXIT_HARNESS
    same = [v for v in viols if v["kind"] == rep["kind"]]
    if args.json:
        print("REPLAY-JSON " + json.dumps({"same_kind": bool(same), "kinds": sorted({v["kind"] for v in viols}), "violations": viols[:10]}, default=repr))
    how = "every execution in a freshly forked process" if isolation == "fork" else "fresh interpreter, one fresh pycparser module set per execution"
    if same:
        print("VIOLATION property=%s replay=%s" % (prop, os.path.abspath(args.replay)))
        print("  reproduced kind=%s (%s): %s" % (rep["kind"], how, same[0].get("detail")))
        if not args.json:
            for key in ("got", "want", "first_diff", "first_token_diff"):
                if same[0].get(key) is not None:
                    print("  %s: %s" % (key, json.dumps(same[0][key])[:600]))
        return EXIT_VIOLATION
    if viols:
        print("replay: different violation kinds %s (recorded: %s)" % (sorted({v['kind'] for v in viols}), rep["kind"]))
        print("VIOLATION property=%s replay=%s" % (prop, os.path.abspath(args.replay)))
        return EXIT_VIOLATION
    print("replay: no violation on this tree (%s; %s)" % (repo, how))
    return EXIT_OK


def main():
    ap = argparse.ArgumentParser()
    ap.add_argument("prop", nargs="?")
    ap.add_argument("tier", nargs="?", default=os.environ.get("VERIF_TIER") or "quick")
    ap.add_argument("--repo", default=os.environ.get("VERIF_REPO") or "/repo")
    ap.add_argument("--seed")
    ap.add_argument("--budget")
    ap.add_argument("--workers")
    ap.add_argument("--max-runs")
    ap.add_argument("--replay")
    ap.add_argument("--no-det", action="store_true")
    ap.add_argument("--digests", nargs=4)
    ap.add_argument("--mutants")
    ap.add_argument("--isolation", choices=["fork", "reimport"])
    ap.add_argument("--json", action="store_true")
    args = ap.parse_args()
    if args.digests:
        return cmd_digests(args)
    if args.prop == "selftest":
        from sim import selftest

        return selftest.main(args)
    if args.prop not in ("C12", "C13"):
        ap.error("property must be C12 or C13 (or 'selftest')")
    if args.replay:
        return cmd_replay(args)
    if args.tier not in TIERS:
        ap.error("tier must be quick or thorough")
    return cmd_check(args)


if __name__ == "__main__":
    try:
        rc = main()
    except HarnessError as e:
        print("HARNESS-ERROR %s" % e)
        rc = EXIT_HARNESS
    except BaseException as e:  # any crash of the machinery is exit 2, never 1
        if isinstance(e, SystemExit):
            raise
        import traceback

        try:
            print("HARNESS-ERROR unexpected %s: %s" % (type(e).__name__, e))
            traceback.print_exc()
        except Exception:
            pass
        rc = EXIT_HARNESS
    try:
        sys.stdout.flush()
    except Exception:
        pass
    sys.exit(rc)
