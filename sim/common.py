"""Shared helpers: seed derivation, digests, JSON, exit codes.

Nothing in here imports or executes pycparser.
"""
import hashlib
import json
import os
import random
import sys

ENGINE_VERSION = 1

EXIT_OK = 0
EXIT_VIOLATION = 1
EXIT_HARNESS = 2

VERIF_DIR = os.path.dirname(os.path.dirname(os.path.abspath(__file__)))


class HarnessError(Exception):
    """Something went wrong in the machinery itself (never a verdict)."""


def H(*parts) -> int:
    """Deterministic 64-bit hash of the parts (independent of PYTHONHASHSEED)."""
    h = hashlib.blake2b(digest_size=8)
    for p in parts:
        h.update(repr(p).encode("utf-8", "backslashreplace"))
        h.update(b"\x00")
    return int.from_bytes(h.digest(), "big")


def rng_for(*parts) -> random.Random:
    return random.Random(H(*parts))


def digest(obj) -> str:
    """Short hex digest of a JSON-able object or a string."""
    if not isinstance(obj, (str, bytes)):
        obj = json.dumps(obj, sort_keys=True, separators=(",", ":"), default=repr)
    if isinstance(obj, str):
        obj = obj.encode("utf-8", "backslashreplace")
    return hashlib.blake2b(obj, digest_size=10).hexdigest()


def jdump(obj, path):
    tmp = path + ".tmp.%d" % os.getpid()
    with open(tmp, "w") as f:
        json.dump(obj, f, indent=1, sort_keys=False, default=repr)
        f.write("\n")
    os.replace(tmp, path)


def jload(path):
    with open(path) as f:
        return json.load(f)


def eprint(*a, **k):
    print(*a, file=sys.stderr, **k)
    sys.stderr.flush()


def geometric(rng: random.Random, mean: float) -> int:
    """Geometric variate >= 1 with the given mean."""
    if mean <= 1:
        return 1
    p = 1.0 / mean
    n = 1
    # inverse transform; bounded
    u = rng.random()
    import math

    n = int(math.log(max(u, 1e-12)) / math.log(1.0 - p)) + 1
    return max(1, min(n, int(mean * 20)))
