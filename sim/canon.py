"""Canonical forms of the things pycparser returns.  Used inside children only.

ast_form(root)  -> AstForm with .text (structural dump over __slots__, every
attribute, list order, Coord(file,line,column) included; nodes reached twice
inside one AST are written as a back reference @<preorder index>), .ids (id()
of every c_ast.Node reachable), .files, .lines, .coord_ids.
"""

_LIT = object()  # sentinel marking literal output on the work stack


class AstForm:
    __slots__ = ("text", "ids", "files", "lines", "coord_ids", "n_nodes", "n_backrefs")


def _is_coord(v):
    return type(v).__name__ == "Coord" and hasattr(v, "line") and hasattr(v, "file")


def ast_form(root, node_base) -> AstForm:
    out = []
    seen = {}
    files = set()
    lines = set()
    coord_ids = set()
    nback = 0
    stack = [root]
    push = stack.append
    emit = out.append
    while stack:
        v = stack.pop()
        if type(v) is tuple and len(v) == 2 and v[0] is _LIT:
            emit(v[1])
            continue
        if isinstance(v, node_base):
            k = seen.get(id(v))
            if k is not None:
                nback += 1
                emit("@%d" % k)
                continue
            seen[id(v)] = len(seen)
            emit(type(v).__name__ + "(")
            slots = [s for s in type(v).__slots__ if s != "__weakref__"]
            push((_LIT, ")"))
            for s in reversed(slots):
                try:
                    val = getattr(v, s)
                except AttributeError:
                    val = "<unset>"
                push(val)
                push((_LIT, " " + s + "="))
            continue
        if isinstance(v, (list, tuple)):
            emit("[" if isinstance(v, list) else "(t")
            push((_LIT, "]"))
            for i in range(len(v) - 1, -1, -1):
                push(v[i])
                if i:
                    push((_LIT, ","))
            continue
        if _is_coord(v):
            coord_ids.add(id(v))
            f = getattr(v, "file", None)
            ln = getattr(v, "line", None)
            col = getattr(v, "column", None)
            files.add(f if isinstance(f, str) else repr(f))
            if isinstance(ln, int):
                lines.add(ln)
            emit("<%r:%r:%r>" % (f, ln, col))
            continue
        if v is None or isinstance(v, (str, int, float, bool)):
            emit(repr(v))
            continue
        if isinstance(v, dict):
            emit("{dict " + repr(sorted((repr(k), repr(x)) for k, x in v.items())) + "}")
            continue
        emit("<%s %r>" % (type(v).__name__, v))
    r = AstForm()
    r.text = "".join(out)
    r.ids = set(seen)
    r.files = files
    r.lines = lines
    r.coord_ids = coord_ids
    r.n_nodes = len(seen)
    r.n_backrefs = nback
    return r


def find_nodes(root, node_base, clsname):
    """All nodes of class `clsname` reachable from root, in preorder (each once)."""
    res = []
    seen = set()
    stack = [root]
    while stack:
        v = stack.pop()
        if isinstance(v, node_base):
            if id(v) in seen:
                continue
            seen.add(id(v))
            if type(v).__name__ == clsname:
                res.append(v)
            slots = [s for s in type(v).__slots__ if s != "__weakref__"]
            for s in reversed(slots):
                try:
                    stack.append(getattr(v, s))
                except AttributeError:
                    pass
        elif isinstance(v, (list, tuple)):
            for item in reversed(v):
                stack.append(item)
    return res


def tok_form(tok):
    if tok is None:
        return None
    return (
        getattr(tok, "type", "?"),
        getattr(tok, "value", "?"),
        getattr(tok, "lineno", "?"),
        getattr(tok, "column", "?"),
    )
