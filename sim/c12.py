"""C12 - a parser's / lexer's / generator's result never depends on its history.

One actor, long-lived objects (reuse=True), 2..30 operations.  gen_run() draws
a history from the run's PRNG; judge() compares every non-aborted operation
with (a) the same operation executed alone in a pristine process and (b) a
brand-new instance in the used process, plus the "same text twice" and "no
shared nodes" clauses.
"""
from . import workload as W
from .common import digest
from .engine import same_outcome

FILENAMES = ["a.c", "b.c", "", "dir/x.c", "a.c", "hist.c"]
GEN_SELECT = ["root", "FuncDef", "Compound", "Struct", "Enum", "If", "Switch", "For", "Decl",
              "BinaryOp", "Typedef", "Case", "Union", "While", "DoWhile", "Label", "FuncDecl",
              "TernaryOp", "Cast", "InitList", "Default"]
EXC_KINDS = ["KeyboardInterrupt", "MemoryError", "SimAbort"]
ARM_EVENTS = ["LBRACE", "PPPRAGMA", "SEMI", "FILECHG", "LPAREN", "TYPEID", "RBRACE", "TYPEDEF", "PPPRAGMASTR", "_PRAGMA"]

# Texts whose meaning flips if anything of an earlier call is still visible.
CLASH_PROBES = [
    ["int main(void) { T * x; (T)(x); sizeof(T); U (y); V * f; return 0; }"],
    ["int T; int U; int V; int x; int y; int f;"],
    ["typedef int x; typedef int y; typedef int f; typedef int T; typedef int U;"],
    ["T * x;"],
    ["void g(void) { x * y; f (T); (U)-1; }"],
    ["int g(void) { return sizeof(T) + sizeof(x); }"],
    ["int x;"],
    [""],
    ["typedef int T;", "T a; T * b; int c = (T)1;"],
    ["struct S0 { int T; int x; } s;", "int k = sizeof(struct S0);"],
    ["only(void) { y * T; }"],
]


def _pick_weighted(rng, pairs):
    tot = sum(w for _, w in pairs)
    x = rng.random() * tot
    for v, w in pairs:
        x -= w
        if x <= 0:
            return v
    return pairs[-1][0]


def make_abort_fault(rng, kind, ntok_hint=40, text=""):
    """An asynchronous abort in op-local coordinates.  Half of them are armed
    by an event that creates in-flight state (scope pushed, pragma string
    pending, typedef registered, file re-based), chosen among the events the
    text can produce."""
    exc = rng.choice(EXC_KINDS)
    if rng.random() < 0.55:
        evs = ["SEMI", "LPAREN"]
        if "{" in text:
            evs += ["LBRACE", "LBRACE", "RBRACE"]
        if "pragma" in text:
            evs += ["PPPRAGMA"] * 4 + ["PPPRAGMASTR"]
        if "_Pragma" in text:
            evs += ["_PRAGMA"]
        if "typedef" in text:
            evs += ["TYPEDEF", "TYPEID", "TYPEID"]
        if "#line" in text or "# " in text:
            evs += ["FILECHG"] * 3
        ev = rng.choice(evs)
        f = {"kind": kind, "after": [ev, rng.choice([1, 1, 1, 2, 3, 5])], "exc": exc}
        f["plus"] = 1 if kind == "seam-abort" else rng.choice([1, 2, 3, 5, 8, 13, 21, 40, 80])
        if kind == "seam-abort" and rng.random() < 0.2:
            f["plus"] = 2
        return f
    if kind == "seam-abort":
        return {"kind": kind, "at": rng.randrange(1, max(2, ntok_hint)), "exc": exc}
    hi = rng.choice([20, 100, 500, 3000, 20000])
    return {"kind": kind, "at": rng.randrange(1, hi), "exc": exc}


def gen_run(rng, cfg):
    """Draw one C12 history.  cfg: {'tier', 'corpus': [...], 'snippets': [...]}"""
    tier = cfg.get("tier", "quick")
    n_ops = _pick_weighted(rng, [(2, 3), (3, 4), (4, 4), (5, 3), (6, 3), (8, 3), (12, 2), (20, 1), (30, 0.5)])
    faulty = rng.random() < 0.75
    kinds = ["trunc", "illegal", "bracket", "seam-abort", "line-abort", "recursion", "abandon", "snippet-fail"]
    enabled = [k for k in kinds if rng.random() < 0.6] if faulty else []
    if faulty and not enabled:
        enabled = [rng.choice(kinds)]
    mix = {"parse": rng.choice([0.5, 0.7, 0.9, 1.0]), "lex": rng.choice([0, 0.1, 0.3]), "gen": rng.choice([0, 0.15, 0.4]), "parse_file": rng.choice([0, 0, 0.1, 0.3])}
    size = rng.choice([1, 2, 3, 4, 6, 9])
    depth = rng.choice([1, 2, 2, 3])
    sloppy = rng.choice([0.0, 0.02, 0.1, 0.3])
    # swarm "style": which long-lived object the history concentrates on
    style = _pick_weighted(rng, [("mixed", 5), ("generator", 2), ("lexer", 1), ("parser", 2)])
    main_gen = (rng.random() < 0.4, rng.choice(["plain", "plain", "plain", "Upper", "UpperMore"]))
    main_obj = rng.choice(["P0", "P1", "P1"])  # most calls of a history go to one parser
    if style == "generator":
        mix = {"parse": 0.1, "lex": 0.0, "gen": 1.0, "parse_file": 0.0}
        n_ops = max(n_ops, rng.choice([3, 4, 6, 8, 12]))
        size = rng.choice([3, 4, 6, 9])
        depth = rng.choice([2, 3, 3])
        sloppy = rng.choice([0.0, 0.0, 0.02])
    elif style == "lexer":
        mix = {"parse": 0.15, "lex": 1.0, "gen": 0.0, "parse_file": 0.0}
        n_ops = max(n_ops, rng.choice([3, 4, 6, 8]))
    elif style == "parser":
        mix = {"parse": 1.0, "lex": 0.0, "gen": 0.0, "parse_file": 0.2}
    pg = W.ProgGen(rng, actor=None, size=size, depth=depth, sloppy=sloppy, marks=False)
    if rng.random() < 0.2:
        # file-name theme: many line markers, names from a small pool of spellings
        pg.name_pool_rate, pg.directive_rate = 0.9, 0.35
    pool = []
    for _ in range(rng.randrange(2, 6)):
        x = rng.random()
        if x < 0.55:
            pg.scopes = [{}]
            pool.append(pg.program())
        elif x < 0.75:
            pool.append(list(rng.choice(W.STATEFUL_SNIPPETS)))
        elif x < 0.9 and cfg.get("snippets"):
            pool.append([rng.choice(cfg["snippets"])])
        elif cfg.get("corpus"):
            pool.append(list(rng.choice(cfg["corpus"])[1]))
        else:
            pool.append(list(rng.choice(W.STATEFUL_SNIPPETS)))
    if cfg.get("long_corpus") and rng.random() < cfg.get("long_fraction", 0.0):
        # thorough tier: one long real-world input in the pool (cut short or aborted often)
        pool.append(list(rng.choice(cfg["long_corpus"])[1]))
        n_ops = min(n_ops, 8)
    fault_rate = rng.choice([0.25, 0.4, 0.6]) if faulty else 0.0
    ops = []
    bases = []  # the undamaged text each op started from
    dirty = False  # previous op failed / was aborted: follow with a probe more often
    for i in range(n_ops):
        kind = _pick_weighted(rng, list(mix.items()))
        if ops and kind in ("parse", "gen") and rng.random() < 0.04 and any(o["op"] in ("parse", "parse_file") for o in ops):
            # the caller post-processes an AST it got earlier (appends to its string lists)
            ops.append({"op": "mutate", "target": rng.randrange(16), "items": []})
            bases.append([])
        if ops and rng.random() < 0.04:
            # the caller copies / pickles / prints / introspects its long-lived objects
            ops.append({"op": "poke", "what": rng.sample(["repr", "copy", "deepcopy", "pickle", "dir", "eq"], rng.randrange(1, 5)), "items": []})
            bases.append([])
        op = {"op": kind}
        items = list(rng.choice(pool))
        same_again = False
        x = rng.random()
        if ops and x < 0.2:
            prev = rng.choice(ops)
            items = list(prev["items"])  # the same text as an earlier call (damage included)
            same_again = True
        elif ops and x < 0.35:
            # a near-duplicate of an earlier text: one or two lexemes replaced (an edit)
            j = rng.randrange(len(ops))
            src = bases[j] if rng.random() < 0.6 else ops[j]["items"]
            if src:
                items, desc = W.edit_items(rng, src, rng.choice([1, 1, 2]))
                op["edit_of"] = j
                same_again = True
        if not same_again and ((dirty and rng.random() < 0.6) or rng.random() < 0.1):
            items = list(rng.choice(CLASH_PROBES))
        fault = None
        dirty_next = False
        base_items = list(items)
        if kind == "parse":
            op["obj"] = main_obj if rng.random() < 0.8 else rng.choice(["P0", "P1"])
            op["filename"] = rng.choice(FILENAMES)
            if enabled and rng.random() < fault_rate:
                fk = rng.choice(enabled)
                if fk in ("trunc", "illegal", "bracket"):
                    items, desc = W.mutate_items(rng, items, fk)
                    op["mut"] = desc
                    dirty_next = True
                    if rng.random() < 0.25:
                        # damaged input AND an asynchronous abort in the same call
                        ak = rng.choice(["seam-abort", "line-abort"])
                        ntok = max(2, sum(len(W.cheap_tokens(t)) for t in items))
                        fault = make_abort_fault(rng, ak, ntok, "\n".join(items))
                        if ak == "seam-abort" or "after" in fault:
                            op["obj"] = "P1"
                elif fk == "snippet-fail":
                    items = list(rng.choice(W.FAILING_SNIPPETS))
                    op["mut"] = "failing snippet"
                    dirty_next = True
                elif fk == "seam-abort":
                    op["obj"] = "P1"
                    ntok = max(2, sum(len(W.cheap_tokens(t)) for t in items))
                    fault = make_abort_fault(rng, "seam-abort", ntok, "\n".join(items))
                    dirty_next = True
                elif fk == "line-abort":
                    fault = make_abort_fault(rng, "line-abort", 40, "\n".join(items))
                    if "after" in fault:
                        op["obj"] = "P1"  # arming needs the token log of the seam
                    dirty_next = True
                elif fk == "recursion":
                    n = rng.choice([30, 60, 120, 300])
                    deep = rng.choice(["(", "{", "["])
                    if deep == "(":
                        items = ["typedef int T;", "int x = " + "(" * n + "1" + ")" * n + ";"]
                    elif deep == "{":
                        items = ["typedef int T;", "void f(void) " + "{ int U; " * n + "}" * n]
                    else:
                        items = ["typedef int T;", "int x = a" + "[a" * n + "]" * n + ";"]
                    if rng.random() < 0.7:
                        op["reclimit"] = rng.choice([80, 150, 400])
                    else:
                        items = W.deep_program(rng)  # against the natural limit
                    op["untraced"] = True
                    dirty_next = True
        elif kind == "parse_file":
            op["obj"] = main_obj if rng.random() < 0.8 else rng.choice(["P0", "P1"])
            op["filename"] = rng.choice(["vfs/a.c", "vfs/b.c", "vfs/dir/x.c", "vfs/dir/a.c"])
            op["use_cpp"] = rng.random() < 0.4
            if rng.random() < 0.4:
                op["encoding"] = rng.choice(["utf-8", "latin-1"])
            if op["use_cpp"]:
                op["cpp_args"] = rng.choice(["", "-Iinc", ["-Iinc", "-DX=1"]])
            if enabled and rng.random() < fault_rate:
                kinds_io = ["open-error", "decode-error", "short-read"] if not op["use_cpp"] else ["cpp-missing", "cpp-fails", "short-read"]
                k = rng.choice(kinds_io)
                op["io_fault"] = {"kind": k}
                if k == "short-read":
                    op["io_fault"]["at"] = rng.randrange(0, max(1, len("\n".join(items))))
                dirty_next = True
        elif kind == "lex":
            op["filename"] = rng.choice(FILENAMES)
            if rng.random() < 0.3:
                del op["filename"]
            op["errmode"] = rng.choice(["record", "record", "raise"])
            if rng.random() < 0.15:
                op["swap_callbacks"] = True  # new callback functions assigned to the public attributes
            if enabled and rng.random() < fault_rate:
                fk = rng.choice(enabled)
                if fk == "abandon":
                    ntok = max(1, sum(len(W.cheap_tokens(t)) for t in items))
                    op["take"] = rng.randrange(0, ntok + 1)
                    if rng.random() < 0.4:
                        # walk away right after a PPPRAGMA was handed out
                        items = items[: rng.randrange(len(items) + 1)] + ["#pragma pack(%d)" % i, "int z;"]
                        op["take"] = sum(len(W.cheap_tokens(t)) for t in items[:-2]) + 1
                    dirty_next = True
                elif fk in ("trunc", "illegal", "bracket"):
                    items, desc = W.mutate_items(rng, items, fk)
                    op["mut"] = desc
                    dirty_next = True
                elif fk == "line-abort":
                    fault = make_abort_fault(rng, "line-abort")
                    fault.pop("after", None)
                    fault.pop("plus", None)
                    fault.setdefault("at", rng.randrange(1, 400))
                    dirty_next = True
        else:  # gen
            if rng.random() < 0.5 and not ("items_fixed" in op):
                # prefer an input that parses: a construct snippet or a small strict program
                if rng.random() < 0.5:
                    items = list(rng.choice(W.STATEFUL_SNIPPETS))
                else:
                    pv = W.ProgGen(rng, actor=None, size=rng.choice([1, 2, 3]), depth=depth, sloppy=0.0, marks=False)
                    items = pv.program()
            prev_gen = [o for o in ops if o["op"] == "gen"]
            if prev_gen and rng.random() < 0.35:
                # the same tree again (the same AST *object*), usually another node of it
                items = list(rng.choice(prev_gen)["items"])
                op["same_ast"] = True
            op["select"] = [rng.choice(GEN_SELECT), rng.randrange(8), rng.sample(GEN_SELECT[1:10], 3)]
            if rng.random() < 0.8:
                op["reduce"], op["gencls"] = main_gen  # keep the reuse chain on one generator
            else:
                op["reduce"] = rng.random() < 0.4
                op["gencls"] = rng.choice(["plain", "plain", "plain", "Upper", "UpperMore"])
            op["filename"] = "g.c"
            if enabled and "line-abort" in enabled and rng.random() < fault_rate * 0.5:
                # the visit is cut short by an asynchronous abort; this generator is
                # thrown away afterwards, every other object must be unaffected
                hi = rng.choice([30, 150, 600, 3000])
                fault = {"kind": "line-abort", "at": rng.randrange(1, hi), "exc": rng.choice(EXC_KINDS)}
                dirty_next = True
        op["items"] = items
        if fault is not None:
            op["fault"] = fault
        ops.append(op)
        bases.append(base_items)
        dirty = dirty_next
    gc_plan = rng.choice([{"mode": "op-end"}, {"mode": "op-end"}, {"mode": "off"}, {"mode": "steps", "every": rng.choice([300, 2000, 10000])}])
    spec = {
        "property": "C12",
        "mode": "token",
        "check_fresh": True,
        "gc": gc_plan,
        "policy": {"kind": "rtc"},
        "actors": [{"reuse": True, "ops": ops}],
        "swarm": {"faulty": faulty, "enabled": enabled, "size": size, "depth": depth, "sloppy": sloppy, "style": style},
    }
    return spec


# --------------------------------------------------------------------------
def op_key(op):
    """Identity of an operation as far as its expected outcome goes."""
    k = {
        "op": op["op"],
        "text": "\n".join(op.get("items", [])) if "text" not in op else op["text"],
        "filename": op.get("filename"),
    }
    if op["op"] in ("parse", "parse_file"):
        k["sim"] = op.get("obj", "P1") != "P0"
    if op["op"] == "parse_file":
        k["use_cpp"] = bool(op.get("use_cpp"))
        k["cpp_args"] = op.get("cpp_args")
        k["io_fault"] = op.get("io_fault")
        k["default_parser"] = bool(op.get("default_parser"))
    if op["op"] == "gen":
        k["select"] = op.get("select")
        k["reduce"] = bool(op.get("reduce"))
        k["gencls"] = op.get("gencls")
    if op["op"] == "lex":
        k["take"] = op.get("take")
        k["errmode"] = op.get("errmode", "record")
        k["brace_raise"] = op.get("brace_raise")
        k["sim"] = bool(op.get("sim"))
    if op["op"] == "visit":
        k["visitor"] = op.get("visitor")
        k["tag"] = op.get("tag")
        k["show"] = bool(op.get("show"))
    if op.get("reclimit"):
        k["reclimit"] = op["reclimit"]
    return digest(k)


def baseline_spec(op):
    """The same operation, alone, on brand-new objects, no fault."""
    o = {k: v for k, v in op.items() if k not in ("fault", "mut", "same_ast", "swap_callbacks", "edit_of")}
    return {
        "property": "C12",
        "mode": "token",
        "check_fresh": False,
        "policy": {"kind": "rtc"},
        "actors": [{"reuse": False, "ops": [o]}],
        "probes": False,
    }


def compared(res):
    return res.get("out") is not None and res["out"]["k"] not in ("abort", "rec")


def judge(spec, result, baselines):
    """baselines: list (per op) of the pristine result dict or None (aborted op).
    Returns a list of violation dicts (empty = held)."""
    ops = spec["actors"][0]["ops"]
    results = result["actors"][0]
    viols = []
    seen = {}
    def relabel(v, *outs):
        # a difference that consists of the marker a 'mutate' operation appended: the
        # caller edited an AST it had been given and a *later* result contains the edit
        for o in outs:
            if o and "__caller_edit__" in (o.get("full") or o.get("head") or ""):
                v["kind"] = "history:after-caller-edit"
                v["detail"] += " (the caller had edited a list of an AST returned earlier; that list is shared with this result)"
                break
        return v

    for i, (op, r) in enumerate(zip(ops, results)):
        if r.get("shared_nodes"):
            viols.append({"kind": "shared-nodes", "op": i, "detail": "%d node objects of the returned AST were already part of an AST returned by an earlier call" % r["shared_nodes"]})
        if r.get("mutated_later"):
            viols.append({"kind": "history:ast-mutated-later", "op": i, "detail": "the AST returned by this call was different at the end of the history from what it was when returned: a later call modified it"})
        if r.get("fresh_shared_nodes"):
            viols.append({"kind": "shared-nodes:via-module", "op": i, "detail": "a brand-new instance returned %d node objects that an earlier call had returned" % r["fresh_shared_nodes"]})
        if not compared(r):
            continue
        b = baselines[i]
        if b is None:
            continue
        bo = b["out"]
        if op["op"] in ("gen", "visit") and r.get("input") and b.get("input"):
            if r["input"]["k"] != "rec" and b["input"]["k"] != "rec" and r["input"]["d"] != b["input"]["d"]:
                viols.append({"kind": "history:via-module", "op": i, "detail": "a brand-new parser in the used process parsed this op's input differently from a pristine process"})
                continue
        fr = r.get("fresh")
        if fr is not None and not same_outcome(fr, bo):
            viols.append(relabel({"kind": "history:via-module", "op": i, "detail": "brand-new instance in the used process differs from pristine process", "got": _short(fr), "want": _short(bo)}, fr))
        elif not same_outcome(r["out"], bo):
            viols.append(relabel({"kind": "history:via-instance", "op": i, "detail": "reused instance differs from brand-new instance", "got": _short(r["out"]), "want": _short(bo), "first_diff": _first_diff(r["out"], bo)}, r["out"]))
        elif op["op"] in ("parse", "parse_file") and op.get("obj", "P1") != "P0" and r["out"]["k"] != "rec" and bo["k"] != "rec" and not r.get("fault_fired") and r.get("tokhash") != b.get("tokhash"):
            viols.append({"kind": "history:tokens", "op": i, "detail": "token stream delivered to the parser differs from a brand-new instance", "first_diff": _first_tok_diff(r.get("toklog"), b.get("toklog"))})
        key = op_key(op)
        if key in seen:
            j, prev = seen[key]
            if not same_outcome(prev["out"], r["out"]):
                viols.append({"kind": "twice", "op": i, "detail": "same (text, filename) as op %d but a different outcome" % j})
        else:
            seen[key] = (i, r)
    return viols


def _short(o):
    if o is None:
        return None
    s = o.get("full") or o.get("head") or ""
    return {"k": o["k"], "d": o["d"], "text": s[:300]}


def _first_diff(a, b):
    x, y = a.get("full"), b.get("full")
    if x is None or y is None:
        return None
    n = min(len(x), len(y))
    i = next((k for k in range(n) if x[k] != y[k]), n)
    return {"at": i, "got": x[max(0, i - 60): i + 60], "want": y[max(0, i - 60): i + 60]}


def _first_tok_diff(a, b):
    if not a or not b:
        return None
    for i, (x, y) in enumerate(zip(a, b)):
        if x != y:
            return {"index": i, "got": x, "want": y}
    return {"index": min(len(a), len(b)), "got_len": len(a), "want_len": len(b)}


def nontrivial(spec, result):
    """A run counts as non-trivial when at least one *compared* operation
    follows, on the same object, an operation that failed or was aborted."""
    ops = spec["actors"][0]["ops"]
    results = result["actors"][0]
    dirty = set()
    hit = 0
    for op, r in zip(ops, results):
        if op["op"] in ("parse", "parse_file"):
            obj = op.get("obj", "P1")
        elif op["op"] == "lex":
            obj = "L"
        else:
            obj = "G" + str(int(bool(op.get("reduce")))) + str(op.get("gencls"))
        k = r["out"]["k"] if r.get("out") else "?"
        if compared(r) and obj in dirty:
            hit += 1
        if op["op"] == "gen":
            if k == "ok" and r.get("node") in ("FileAST", "FuncDef", "Compound", "Struct", "Union", "Enum", "Switch", "If", "For"):
                dirty.add(obj)
        elif k in ("exc", "abort", "rec") or op.get("take") is not None:
            dirty.add(obj)
    return hit


def probes(spec, result):
    """Rare-condition probes (statistics; never feed a verdict)."""
    ops = spec["actors"][0]["ops"]
    results = result["actors"][0]
    p = {}

    def bump(k, n=1):
        p[k] = p.get(k, 0) + n

    texts = {}
    last_fn = {}
    failed_typedef_names = {}
    for i, (op, r) in enumerate(zip(ops, results)):
        k = r["out"]["k"] if r.get("out") else "?"
        bump("op:" + op["op"])
        bump("outcome:" + k)
        ap = r.get("abort_probe") or {}
        if k == "abort":
            if ap.get("scope_depth", 0) > 1:
                bump("abort_with_open_scopes")
            if ap.get("pending_tok"):
                bump("abort_with_pending_pragma_token")
            if ap.get("speculative"):
                bump("abort_inside_speculative_parse")
            if ap.get("lookahead", 0) > 0:
                bump("abort_with_lookahead_buffered")
        post = r.get("post") or {}
        if k in ("exc", "abort", "rec") and post.get("scope_depth", 0) > 1:
            bump("failed_with_open_scopes")
        if k in ("exc", "abort") and post.get("pending"):
            bump("failed_with_pending_pragma_token")
        if op["op"] in ("parse", "parse_file"):
            obj = op.get("obj", "P1")
            key = op_key(op)
            if key in texts:
                bump("same_text_parsed_twice")
            texts[key] = i
            if obj in last_fn and last_fn[obj] != op.get("filename"):
                bump("filename_changed_between_calls")
            last_fn[obj] = op.get("filename")
            text = "\n".join(op["items"])
            names = failed_typedef_names.get(obj, set())
            if names and compared(r):
                import re

                used = set(re.findall(r"\b[A-Za-z_]\w*\b", text))
                if used & names:
                    bump("later_op_uses_name_a_failed_op_declared")
            if k in ("exc", "abort", "rec"):
                import re

                decl = set(re.findall(r"typedef[^;{}]*?\b([A-Za-z_]\w*)\s*;", text))
                failed_typedef_names.setdefault(obj, set()).update(decl)
        if op["op"] == "gen" and k == "ok":
            bump("gen_node:" + str(r.get("node")))
            if r.get("same_ast_object"):
                bump("generator_revisits_same_ast_object")
        if op["op"] == "lex" and op.get("take") is not None:
            bump("lexer_abandoned")
            if post.get("pending"):
                bump("lexer_abandoned_with_pending_token")
        if r.get("shared_coords"):
            bump("ops_sharing_coord_objects")
    return p


def summarise(spec, result, info):
    results = result["actors"][0]
    ops = spec["actors"][0]["ops"]
    pr = probes(spec, result)
    fired = dict(result.get("fired") or {})
    for op, r in zip(ops, results):
        m = op.get("mut")
        if m and m != "none":
            k = "input:" + m.split()[0]
            fired[k] = fired.get(k, 0) + 1
        if op.get("reclimit"):
            if r.get("out", {}).get("k") == "rec":
                fired["recursion"] = fired.get("recursion", 0) + 1
        if op["op"] == "lex" and op.get("take") is not None:
            fired["abandon"] = fired.get("abandon", 0) + 1
        if op["op"] == "parse_file" and r.get("out", {}).get("k") == "ok":
            pr["parse_file_ok" + ("_with_cpp_seam" if op.get("use_cpp") else "")] = pr.get("parse_file_ok" + ("_with_cpp_seam" if op.get("use_cpp") else ""), 0) + 1
    if info.get("rec_mismatches"):
        pr["recursion_mismatch_rechecked"] = info["rec_mismatches"]
        pr["recursion_mismatch_dismissed_as_not_robust"] = info.get("rec_mismatches_not_robust", 0)
    return {
        "n_ops": len(ops),
        "n_compared": sum(1 for r in results if compared(r)),
        "nontrivial_hits": nontrivial(spec, result),
        "probes": pr,
        "fired": fired,
        "steps": result["steps"],
        "lines": sum(r.get("nline", 0) for r in results),
        "tokens": sum(r.get("ntok", 0) for r in results),
        "case_digest": digest([(op_key(op), op.get("fault")) for op in ops]),
        "faulty": bool(spec.get("swarm", {}).get("faulty")),
    }


def sample_view(spec, result):
    """A written-out case for the evidence file."""
    out = []
    for op, r in zip(spec["actors"][0]["ops"], result["actors"][0]):
        text = "\n".join(op["items"])
        o = r.get("out") or {}
        out.append(
            {
                "op": op["op"],
                "obj": op.get("obj"),
                "filename": op.get("filename"),
                "text": text if len(text) <= 400 else text[:400] + "...[%d chars]" % len(text),
                "input_fault": op.get("mut"),
                "abort_fault": op.get("fault"),
                "take": op.get("take"),
                "select": op.get("select"),
                "io_fault": op.get("io_fault"),
                "use_cpp": op.get("use_cpp"),
                "outcome": o.get("k"),
                "outcome_text": (o.get("full") or o.get("head") or "")[:160],
                "abort_probe": r.get("abort_probe"),
                "compared_with_pristine": compared(r),
            }
        )
    return {"history": out}


def rec_mismatches(spec, result, baselines):
    """[(actor, op, which side raised RecursionError)] for operations where the
    reused instance and the pristine baseline disagree on RecursionError."""
    out = []
    for i, (r, b) in enumerate(zip(result["actors"][0], baselines)):
        if b is None or not r.get("out") or not b.get("out"):
            continue
        rk, bk = r["out"]["k"], b["out"]["k"]
        if rk in ("abort", "hang") or bk in ("abort", "hang"):
            continue
        if (rk == "rec") != (bk == "rec"):
            out.append((0, i, "reused instance" if rk == "rec" else "pristine baseline"))
    return out
