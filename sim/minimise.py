"""Shrink a failing run (ddmin-style) while the same violation kind persists.

Every candidate is a complete run spec with a recorded schedule; it is executed
in fresh pristine children through runner.evaluate().  Budget: a number of
candidates and a wall-clock limit.
"""
import copy
import time

from .common import HarnessError


class Budget:
    def __init__(self, max_cands=300, max_s=60.0):
        self.left = max_cands
        self.deadline = time.time() + max_s
        self.tried = 0

    def ok(self):
        return self.left > 0 and time.time() < self.deadline


def _size(spec):
    n = 0
    for a in spec["actors"]:
        for op in a["ops"]:
            n += 1 + len(op.get("items", [])) + sum(len(t) for t in op.get("items", [])) // 40
            if op.get("fault"):
                n += 1
    return n + len(spec.get("schedule") or [])


def remove_actor(spec, i):
    s = copy.deepcopy(spec)
    del s["actors"][i]
    sched = []
    for seg in s.get("schedule") or []:
        a, n = seg
        if a == i:
            continue
        sched.append([a - 1 if a > i else a, n])
    s["schedule"] = _merge(sched)
    for a in s["actors"]:
        mk = a.get("markers")
        if mk and mk.get("not_for"):
            nf = {}
            for k, v in mk["not_for"].items():
                k = int(k)
                if k == i:
                    continue
                nf[str(k - 1 if k > i else k)] = v
            mk["not_for"] = nf
    return s


def _merge(segs):
    out = []
    for a, n in segs:
        if out and out[-1][0] == a:
            out[-1][1] += n
        else:
            out.append([a, n])
    return out


def minimise(spec, kind, evaluate, max_cands=600, max_s=90.0, log=None):
    """Returns (smaller_spec, stats).  `evaluate(spec) -> (viols, result, info)`."""
    bud = Budget(max_cands, max_s)
    best = copy.deepcopy(spec)
    min_actors = 2 if spec["property"] == "C13" else 1

    def fails(cand):
        if not bud.ok():
            return False
        bud.left -= 1
        bud.tried += 1
        try:
            viols, result, _ = evaluate(copy.deepcopy(cand))
        except HarnessError:
            return False
        if any(v["kind"] == kind for v in viols):
            # keep the schedule as actually executed
            cand["schedule"] = result["schedule"]
            return True
        return False

    def attempt(cand):
        nonlocal best
        if fails(cand):
            best = cand
            return True
        return False

    progress = True
    rounds = 0
    while progress and bud.ok() and rounds < 6:
        progress = False
        rounds += 1
        # 1. actors
        i = 0
        while i < len(best["actors"]) and len(best["actors"]) > min_actors and bud.ok():
            if attempt(remove_actor(best, i)):
                progress = True
            else:
                i += 1
        # 2. operations (suffix first, then singles)
        for ai in range(len(best["actors"])):
            ops = best["actors"][ai]["ops"]
            k = len(ops)
            while k > 1 and bud.ok():
                cand = copy.deepcopy(best)
                cand["actors"][ai]["ops"] = cand["actors"][ai]["ops"][: k - 1]
                if attempt(cand):
                    progress = True
                    k -= 1
                else:
                    break
            j = 0
            while j < len(best["actors"][ai]["ops"]) and len(best["actors"][ai]["ops"]) > 1 and bud.ok():
                cand = copy.deepcopy(best)
                del cand["actors"][ai]["ops"][j]
                if attempt(cand):
                    progress = True
                else:
                    j += 1
        # 3. faults
        for ai in range(len(best["actors"])):
            for oi in range(len(best["actors"][ai]["ops"])):
                op = best["actors"][ai]["ops"][oi]
                if op.get("fault") and bud.ok():
                    cand = copy.deepcopy(best)
                    del cand["actors"][ai]["ops"][oi]["fault"]
                    if attempt(cand):
                        progress = True
                for key in ("reclimit", "take"):
                    if best["actors"][ai]["ops"][oi].get(key) is not None and bud.ok():
                        cand = copy.deepcopy(best)
                        del cand["actors"][ai]["ops"][oi][key]
                        if attempt(cand):
                            progress = True
        # 4. items of each text (ddmin: halves, then singles)
        for ai in range(len(best["actors"])):
            for oi in range(len(best["actors"][ai]["ops"])):
                n = len(best["actors"][ai]["ops"][oi].get("items", []))
                chunk = max(1, n // 2)
                while chunk >= 1 and bud.ok():
                    j = 0
                    while j < len(best["actors"][ai]["ops"][oi]["items"]) and bud.ok():
                        items = best["actors"][ai]["ops"][oi]["items"]
                        if len(items) <= 0:
                            break
                        cand = copy.deepcopy(best)
                        cand["actors"][ai]["ops"][oi]["items"] = items[:j] + items[j + chunk:]
                        if attempt(cand):
                            progress = True
                        else:
                            j += chunk
                    chunk //= 2
        # 5. schedule: sequential? else shortest failing prefix (the rest falls
        #    back to run-to-completion), then ddmin over chunks of segments
        if len(best["actors"]) > 1 and bud.ok() and (best.get("schedule") or []):
            cand = copy.deepcopy(best)
            cand["schedule"] = []
            if attempt(cand):
                progress = True
            else:
                lo, hi = 0, len(best["schedule"])  # prefix of length hi fails
                while hi - lo > 1 and bud.ok():
                    mid = (lo + hi) // 2
                    cand = copy.deepcopy(best)
                    cand["schedule"] = best["schedule"][:mid]
                    # fails() re-records the executed schedule: the prefix plus
                    # at most one run-to-completion segment per actor
                    if fails(cand) and _size(cand) < _size(best):
                        best = cand
                        hi = min(mid, len(best["schedule"]))
                        progress = True
                    else:
                        lo = mid
                chunk = max(1, len(best["schedule"]) // 2)
                while chunk >= 1 and bud.ok():
                    j = 0
                    while j < len(best.get("schedule") or []) and bud.ok():
                        segs = best["schedule"]
                        cand = copy.deepcopy(best)
                        cand["schedule"] = _merge(segs[:j] + segs[j + chunk:])
                        if fails(cand) and _size(cand) < _size(best):
                            best = cand
                            progress = True
                        else:
                            j += chunk
                    chunk //= 2
    stats = {"candidates": bud.tried, "size_before": _size(spec), "size_after": _size(best)}
    return best, stats
