"""Sensitivity self-test: break C12 / C13 on purpose in a scratch copy of the
repository and require the quick tier to report a VIOLATION that replays.

  ./check selftest [--mutants name1,name2] [--budget S]

Each mutant is a textual patch of the copy (never of /repo).  The copy lives
under tempfile.mkdtemp() and is removed again.
"""
import os
import re
import shutil
import subprocess
import sys
import tempfile
import time

from .common import VERIF_DIR

# name -> (property expected to fire, [(file, old, new), ...], note)
MUTANTS = {
    "lexer_forget_pending": (
        ["C12"],
        [("pycparser/c_lexer.py",
          "        self._init_state()\n        self._lexdata = text\n        self._filename = filename\n",
          "        self._pos = 0\n        self._line_start = 0\n        self._lineno = 1\n        self._lexdata = text\n        self._filename = filename\n")],
        "input() resets fields by hand and forgets _pending_tok",
    ),
    "lexer_forget_line_start": (
        ["C12"],
        [("pycparser/c_lexer.py",
          "        self._init_state()\n        self._lexdata = text\n        self._filename = filename\n",
          "        self._pos = 0\n        self._pending_tok = None\n        self._lineno = 1\n        self._lexdata = text\n        self._filename = filename\n")],
        "input() resets fields by hand and forgets _line_start (columns of the first line)",
    ),
    "lexer_forget_lineno": (
        ["C12"],
        [("pycparser/c_lexer.py",
          "        self._init_state()\n        self._lexdata = text\n        self._filename = filename\n",
          "        self._pos = 0\n        self._pending_tok = None\n        self._line_start = 0\n        self._lexdata = text\n        self._filename = filename\n")],
        "input() resets fields by hand and forgets _lineno",
    ),
    "parser_no_scope_reset": (
        ["C12"],
        [("pycparser/c_parser.py",
          "        self._scope_stack = [dict()]\n        self.clex.input(text, filename)\n",
          "        self.clex.input(text, filename)\n")],
        "parse() no longer resets the scope stack at all",
    ),
    "parse_memo": (
        ["C12"],
        [("pycparser/c_parser.py",
          "        self._scope_stack = [dict()]\n        self.clex.input(text, filename)\n",
          "        if getattr(self, '_memo_key', None) == (text, filename):\n            return self._memo_ast\n        self._scope_stack = [dict()]\n        self.clex.input(text, filename)\n"),
         ("pycparser/c_parser.py",
          "            self._parse_error(f\"before: {tok.value}\", self._tok_coord(tok))\n        return ast\n",
          "            self._parse_error(f\"before: {tok.value}\", self._tok_coord(tok))\n        self._memo_key = (text, filename)\n        self._memo_ast = ast\n        return ast\n")],
        "parse() memoises its last result on the instance (shared nodes)",
    ),
    "scope_reset_at_end": (
        ["C12"],
        [("pycparser/c_parser.py",
          "        self._scope_stack = [dict()]\n        self.clex.input(text, filename)\n",
          "        self.clex.input(text, filename)\n"),
         ("pycparser/c_parser.py",
          "            self._parse_error(f\"before: {tok.value}\", self._tok_coord(tok))\n        return ast\n",
          "            self._parse_error(f\"before: {tok.value}\", self._tok_coord(tok))\n        self._scope_stack = [dict()]\n        return ast\n")],
        "scope stack reset moved to the end of a successful parse()",
    ),
    "gen_unbalanced_indent": (
        ["C12"],
        [("pycparser/c_generator.py",
          "            s += \"{\\n\"\n            s += body_function(members)\n",
          "            s += \"{\\n\"\n            if not members:\n                return s + self._make_indent()[2:] + \"}\"\n            s += body_function(members)\n")],
        "empty struct/enum body returns before the indent is restored",
    ),
    "lexer_global_filename": (
        ["C13"],
        [("pycparser/c_lexer.py",
          "@dataclass(slots=True)\nclass Token:",
          "_cur_filename = [\"\"]\n\n\n@dataclass(slots=True)\nclass Token:"),
         ("pycparser/c_lexer.py",
          "        self._lexdata = text\n        self._filename = filename\n",
          "        self._lexdata = text\n        _cur_filename[0] = filename\n"),
         ("pycparser/c_lexer.py",
          "    def filename(self) -> str:\n        return self._filename\n",
          "    def filename(self) -> str:\n        return _cur_filename[0]\n"),
         ("pycparser/c_lexer.py",
          "                if pp_filename is not None:\n                    self._filename = pp_filename\n",
          "                if pp_filename is not None:\n                    _cur_filename[0] = pp_filename\n")],
        "lexer keeps the current file name in a module global",
    ),
    "gen_shared_indent": (
        ["C13"],
        [("pycparser/c_generator.py",
          "class CGenerator:\n",
          "class _Indent:\n    level = 0\n\n\n_INDENT = _Indent()\n\n\nclass CGenerator:\n"),
         ("pycparser/c_generator.py",
          "    indent_level: int\n    reduce_parentheses: bool\n",
          "    reduce_parentheses: bool\n\n    @property\n    def indent_level(self):\n        return _INDENT.level\n\n    @indent_level.setter\n    def indent_level(self, v):\n        _INDENT.level = v\n")],
        "generator keeps indent_level in a shared holder object (line mode only)",
    ),
    "scope_stack_class_attr": (
        ["C13"],
        [("pycparser/c_parser.py",
          "class CParser:\n",
          "class CParser:\n    _scope_stack: List[Dict[str, bool]] = [dict()]\n"),
         ("pycparser/c_parser.py",
          "        self._scope_stack: List[Dict[str, bool]] = [dict()]\n        self._tokens: _TokenStream = _TokenStream(self.clex)\n",
          "        self._tokens: _TokenStream = _TokenStream(self.clex)\n"),
         ("pycparser/c_parser.py",
          "        self._scope_stack = [dict()]\n        self.clex.input(text, filename)\n",
          "        del self._scope_stack[1:]\n        self._scope_stack[0].clear()\n        self.clex.input(text, filename)\n")],
        "_scope_stack is a class attribute cleared in place by parse()",
    ),
    "coord_cache": (
        ["C12", "C13"],
        [("pycparser/c_parser.py",
          "class ParseError(Exception):\n    pass\n",
          "class ParseError(Exception):\n    pass\n\n\n_coord_cache: Dict[Tuple[int, Optional[int]], Coord] = {}\n"),
         ("pycparser/c_parser.py",
          "        return Coord(file=self.clex.filename, line=lineno, column=column)\n",
          "        key = (lineno, column)\n        c = _coord_cache.get(key)\n        if c is None:\n            c = _coord_cache[key] = Coord(file=self.clex.filename, line=lineno, column=column)\n        return c\n")],
        "module-level Coord cache keyed by (line, column)",
    ),
    "coord_cache_on_sys": (
        ["C12", "C13"],
        [("pycparser/c_parser.py", "from dataclasses import dataclass\n", "import sys\nfrom dataclasses import dataclass\n"),
         ("pycparser/c_parser.py",
          "        return Coord(file=self.clex.filename, line=lineno, column=column)\n",
          "        cache = sys.__dict__.setdefault('_pyc_coord_cache', {})\n        key = (lineno, column)\n        c = cache.get(key)\n        if c is None:\n            c = cache[key] = Coord(file=self.clex.filename, line=lineno, column=column)\n        return c\n")],
        "Coord cache parked on the sys module: survives fresh module sets (blind spot of the in-process isolation; found through the isolation cross-check)",
    ),
    "nodevisitor_class_cache": (
        ["C13"],
        [("pycparser/c_ast.py",
          "    _method_cache = None\n",
          "    _method_cache = {}\n")],
        "NodeVisitor method cache (bound methods) shared by all instances",
    ),
    "tokenstream_buffer_class_attr": (
        ["C13"],
        [("pycparser/c_parser.py",
          "        self._lexer = lexer\n        self._buffer: List[Optional[Token]] = []\n        self._index = 0\n",
          "        self._lexer = lexer\n        del self._buffer[:]\n        self._index = 0\n"),
         ("pycparser/c_parser.py",
          "    def __init__(self, lexer: CLexer) -> None:\n        self._lexer = lexer\n",
          "    _buffer: List[Optional[Token]] = []\n\n    def __init__(self, lexer: CLexer) -> None:\n        self._lexer = lexer\n")],
        "_TokenStream look-ahead buffer is a class attribute cleared in place",
    ),
    "gen_modifiers_default_append": (
        ["C12", "C13"],
        [("pycparser/c_generator.py",
          "                return self._generate_type(\n                    n.type, modifiers + [n], emit_declname=emit_declname\n                )\n",
          "                modifiers.append(n)\n                try:\n                    return self._generate_type(\n                        n.type, modifiers, emit_declname=emit_declname\n                    )\n                finally:\n                    if emit_declname:\n                        modifiers.pop()\n")],
        "_generate_type appends to its (default) modifiers list; only popped on some paths",
    ),
}


# Property-PRESERVING changes that look suspicious: both checks must stay silent.
BENIGN = {
    "benign_global_parse_lock": (
        [("pycparser/c_parser.py", "from dataclasses import dataclass\n", "import threading\nfrom dataclasses import dataclass\n"),
         ("pycparser/c_parser.py", "class ParseError(Exception):\n    pass\n", "class ParseError(Exception):\n    pass\n\n\n_PARSE_LOCK = threading.Lock()\n"),
         ("pycparser/c_parser.py",
          "        self._scope_stack = [dict()]\n        self.clex.input(text, filename)\n        self._tokens = _TokenStream(self.clex)\n\n        ast = self._parse_translation_unit_or_empty()\n        tok = self._peek()\n        if tok is not None:\n            self._parse_error(f\"before: {tok.value}\", self._tok_coord(tok))\n        return ast\n",
          "        with _PARSE_LOCK:\n            self._scope_stack = [dict()]\n            self.clex.input(text, filename)\n            self._tokens = _TokenStream(self.clex)\n\n            ast = self._parse_translation_unit_or_empty()\n            tok = self._peek()\n            if tok is not None:\n                self._parse_error(f\"before: {tok.value}\", self._tok_coord(tok))\n            return ast\n")],
        "a module-level lock serialises parse(): parses cannot overlap, results are unchanged",
    ),
    "benign_pure_module_memo": (
        [("pycparser/c_lexer.py", "@dataclass(slots=True)\nclass Token:", "_kw_memo: Dict[str, str] = {}\n\n\n@dataclass(slots=True)\nclass Token:"),
         ("pycparser/c_lexer.py", "                tok_type = _keyword_map.get(value, \"ID\")\n",
          "                tok_type = _kw_memo.get(value)\n                if tok_type is None:\n                    tok_type = _kw_memo[value] = _keyword_map.get(value, \"ID\")\n")],
        "module-level memo of a pure function of its key (keyword classification): shared, but cannot change a result; changes line-event counts",
    ),
    "benign_instance_typedef_cache": (
        [("pycparser/c_parser.py", "        self._scope_stack = [dict()]\n        self.clex.input(text, filename)\n",
          "        self._scope_stack = [dict()]\n        self._tcache = {}\n        self.clex.input(text, filename)\n"),
         ("pycparser/c_parser.py", "        self._scope_stack.append(dict())\n", "        self._scope_stack.append(dict())\n        self._tcache = {}\n"),
         ("pycparser/c_parser.py", "        assert len(self._scope_stack) > 1\n        self._scope_stack.pop()\n", "        assert len(self._scope_stack) > 1\n        self._scope_stack.pop()\n        self._tcache = {}\n"),
         ("pycparser/c_parser.py", "        self._scope_stack[-1][name] = True\n", "        self._scope_stack[-1][name] = True\n        self._tcache = {}\n"),
         ("pycparser/c_parser.py", "        self._scope_stack[-1][name] = False\n", "        self._scope_stack[-1][name] = False\n        self._tcache = {}\n"),
         ("pycparser/c_parser.py", "        \"\"\"Is *name* a typedef-name in the current scope?\"\"\"\n        for scope in reversed(self._scope_stack):\n            # If name is an identifier in this scope it shadows typedefs in\n            # higher scopes.\n            if name in scope:\n                return scope[name]\n        return False\n",
          "        \"\"\"Is *name* a typedef-name in the current scope?\"\"\"\n        cache = self.__dict__.setdefault(\"_tcache\", {})\n        r = cache.get(name)\n        if r is not None:\n            return r\n        r = False\n        for scope in reversed(self._scope_stack):\n            if name in scope:\n                r = scope[name]\n                break\n        cache[name] = r\n        return r\n")],
        "per-instance typedef look-up memo that IS invalidated on every scope change and at the start of parse()",
    ),
}


def apply_mutant(copy, name):
    if name in BENIGN:
        patches, note = BENIGN[name]
        props = ["C12", "C13"]
    else:
        props, patches, note = MUTANTS[name]
    for fn, old, new in patches:
        p = os.path.join(copy, fn)
        s = open(p, encoding="utf-8").read()
        if s.count(old) != 1:
            raise RuntimeError("mutant %s: anchor not found exactly once in %s" % (name, fn))
        open(p, "w", encoding="utf-8").write(s.replace(old, new, 1))
    return props


def copy_repo(repo):
    d = tempfile.mkdtemp(prefix="pycparser-mutant-")
    dst = os.path.join(d, "repo")
    shutil.copytree(repo, dst, ignore=shutil.ignore_patterns(".git", "__pycache__", "*.pyc", ".pytest_cache"))
    return d, dst


def run_suite(copy):
    """The repository's own tests against the copy: (passed, failed)."""
    env = dict(os.environ)
    env.pop("PYTHONPATH", None)
    env["TMPDIR"] = os.path.dirname(copy)  # the suite leaves temp files behind; keep them in the scratch dir
    p = subprocess.run([sys.executable, "-m", "pytest", "-q", "-p", "no:cacheprovider", "--no-header"], cwd=copy, env=env, capture_output=True, text=True, timeout=600)
    m = re.search(r"(\d+) passed", p.stdout)
    f = re.search(r"(\d+) failed", p.stdout)
    return (int(m.group(1)) if m else 0, int(f.group(1)) if f else 0)


def main(args):
    repo = os.path.realpath(args.repo)
    names = [n for n in (args.mutants.split(",") if args.mutants else list(MUTANTS) + list(BENIGN))]
    budget = args.budget or "30"
    check = os.path.join(VERIF_DIR, "check")
    ok = True
    rows = []
    for name in names:
        d, copy = copy_repo(repo)
        try:
            props = apply_mutant(copy, name)
            passed, failed = run_suite(copy) if not os.environ.get("SELFTEST_SKIP_SUITE") else (-1, -1)
            for prop in props:
                t0 = time.time()
                p = subprocess.run([check, prop, "quick", "--repo", copy, "--budget", str(budget)] + ([] if name == "coord_cache_on_sys" else ["--no-det"]), capture_output=True, text=True)
                dt = time.time() - t0
                m = re.search(r"^VIOLATION property=(\S+) replay=(\S+)", p.stdout, re.M)
                caught = p.returncode == 1 and m is not None
                if name in BENIGN:
                    silent = p.returncode == 0 and m is None
                    rows.append((name, prop, passed, failed, silent))
                    print("benign %-32s %s suite=%d/%d silent=%s (exit %d) %.0fs" % (name, prop, passed, passed + failed if passed >= 0 else -1, silent, p.returncode, dt))
                    sys.stdout.flush()
                    if not silent:
                        ok = False
                        print("   output tail: " + "\n".join(p.stdout.splitlines()[-5:])[:1500])
                    continue
                replayed = False
                kind = ""
                if caught:
                    km = re.search(r"kind=(\S+)", p.stdout)
                    kind = km.group(1) if km else ""
                    tmp_replay = os.path.join(d, "replay.json")
                    shutil.copy(m.group(2), tmp_replay)
                    os.remove(m.group(2))
                    q = subprocess.run([check, prop, "--replay", tmp_replay, "--repo", copy], capture_output=True, text=True)
                    replayed = q.returncode == 1
                    q0 = subprocess.run([check, prop, "--replay", tmp_replay, "--repo", repo], capture_output=True, text=True)
                    clean_on_original = q0.returncode == 0
                else:
                    clean_on_original = None
                rows.append((name, prop, passed, failed, caught, replayed, clean_on_original, kind, dt))
                print("mutant %-32s %s suite=%d/%d caught=%s replayed=%s clean_on_original=%s kind=%s %.0fs" % (name, prop, passed, passed + failed if passed >= 0 else -1, caught, replayed, clean_on_original, kind, dt))
                sys.stdout.flush()
                if not (caught and replayed and clean_on_original):
                    ok = False
                    tail = "\n".join(p.stdout.splitlines()[-5:])
                    print("   output tail: " + tail[:1500])
        finally:
            shutil.rmtree(d, ignore_errors=True)
    print("selftest: %s (%d mutant x property pairs)" % ("all mutants caught, all benign changes silent" if ok else "SOME MISSED OR FALSE ALARM", len(rows)))
    return 0 if ok else 1
