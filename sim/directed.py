"""Where does the code under test write state that several instances can see?

A cheap static look at the byte code of the pycparser modules of one module
set: source lines that store to a module global, or that call a mutating method
on / store into / delete from an object reached through a module global or
through a class attribute holding a mutable container.  The result only guides
one scheduling policy ("directed": pre-empt right before or right after such a
line and let somebody else run) - it never feeds a verdict, so a wrong guess
costs coverage, not soundness.  On the pinned tree the set is empty: nothing
at module or class level is written after import.
"""
import collections
import dis
import types

MUTATORS = {
    "append", "extend", "clear", "pop", "popitem", "setdefault", "update", "insert", "remove",
    "add", "discard", "sort", "reverse", "appendleft", "popleft", "extendleft", "rotate",
    "__setitem__", "__delitem__", "put", "push",
}
_CONTAINERS = (list, dict, set, bytearray, collections.deque)


def _shared_object(v):
    if isinstance(v, _CONTAINERS):
        return True
    if v is None or isinstance(v, (str, bytes, int, float, bool, tuple, frozenset, type, types.ModuleType)):
        return False
    if callable(v):
        return False
    return hasattr(v, "__dict__") or hasattr(v, "__slots__")


def _codes(code):
    yield code
    for c in code.co_consts:
        if isinstance(c, types.CodeType):
            yield from _codes(c)


def analyse_module(mod, shared_attr_names):
    """{(code object, line number)} for one module."""
    g = vars(mod)
    out = set()
    roots = []
    for v in list(g.values()):
        if isinstance(v, types.FunctionType) and v.__module__ == mod.__name__:
            roots.append(v.__code__)
        elif isinstance(v, type) and v.__module__ == mod.__name__:
            for m in vars(v).values():
                f = getattr(m, "__func__", m)
                if isinstance(f, types.FunctionType):
                    roots.append(f.__code__)
                elif isinstance(m, property):
                    for pf in (m.fget, m.fset, m.fdel):
                        if isinstance(pf, types.FunctionType):
                            roots.append(pf.__code__)
    seen = set()
    for root in roots:
        for code in _codes(root):
            if code in seen:
                continue
            seen.add(code)
            by_line = {}
            for ins in dis.get_instructions(code):
                ln = ins.positions.lineno if ins.positions else None
                if ln is not None:
                    by_line.setdefault(ln, []).append(ins)
            for ln, inss in by_line.items():
                ops = {i.opname for i in inss}
                if "STORE_GLOBAL" in ops or "DELETE_GLOBAL" in ops:
                    out.add((code, ln))
                    continue
                if any(i.opname in ("STORE_DEREF", "DELETE_DEREF") and i.argval in code.co_freevars for i in inss):
                    # `nonlocal x; x = ...`: a closure variable that may outlive the call
                    out.add((code, ln))
                    continue
                shared = False
                for i in inss:
                    if i.opname == "LOAD_GLOBAL" and _shared_object(g.get(i.argval)):
                        shared = True
                    elif i.opname in ("LOAD_ATTR", "LOAD_METHOD") and i.argval in shared_attr_names:
                        shared = True
                if not shared:
                    continue
                mutates = bool(ops & {"STORE_SUBSCR", "DELETE_SUBSCR", "STORE_ATTR", "DELETE_ATTR", "STORE_SLICE"})
                if not mutates:
                    mutates = any(i.opname in ("LOAD_ATTR", "LOAD_METHOD") and i.argval in MUTATORS for i in inss)
                if mutates:
                    out.add((code, ln))
    return out


def shared_write_lines(pyc):
    mods = [pyc.pycparser, pyc.c_ast, pyc.c_lexer, pyc.c_parser, pyc.c_generator]
    try:
        from_import = __import__("sys").modules.get("pycparser.ast_transforms")
        if from_import is not None:
            mods.append(from_import)
    except Exception:
        pass
    names = set()
    for mod in mods:
        for v in vars(mod).values():
            if isinstance(v, type) and getattr(v, "__module__", None) == mod.__name__:
                for k, val in vars(v).items():
                    if not k.startswith("__") and isinstance(val, _CONTAINERS):
                        names.add(k)
    out = set()
    for mod in mods:
        try:
            out |= analyse_module(mod, names)
        except Exception:
            pass
    return out
