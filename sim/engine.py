"""The simulator proper.  Everything here runs inside a pristine forked child.

A *run spec* (plain JSON-able dict) describes actors, their scripts (ops with
literal texts and actor-local fault plans), the pre-emption mode and either a
scheduling policy (decisions drawn from the run's PRNG) or a recorded schedule
(list of [actor, n_steps] segments).  `execute(spec)` runs it under the baton
scheduler and returns a result dict; the same function, with a single actor and
no schedule, produces the "alone" baselines.

Exactly one actor thread runs at any time: a thread only proceeds while it
holds the baton and hands it over only at yield points it reaches itself
(token mode: every token() call through the public lexer= seam and every op
boundary; line mode: additionally every `line` trace event in a frame whose
code lives under <repo>/pycparser/).
"""
import gc
import os
import random
import sys
import threading

from . import canon, directed, simsync
from .common import H, HarnessError, digest, geometric

FULL_FORM_LIMIT = 300_000
TOKLOG_LIMIT = 4000
INF = 1 << 60


class SimAbort(BaseException):
    """Private exception class for injected asynchronous aborts."""


EXC_CLASSES = {
    "KeyboardInterrupt": KeyboardInterrupt,
    "MemoryError": MemoryError,
    "SimAbort": SimAbort,
}


class StepCap(BaseException):
    """Step cap exceeded (the run takes far more steps than its parts took
    alone, or a lexer never ends); kept out of `except Exception`.  The op in
    progress gets the outcome 'hang' and every actor is unwound in turn."""


class LexCallbackError(Exception):
    """Raised by the standalone-lexer error callback in 'raise' mode."""


# --------------------------------------------------------------------------
# Scheduler
# --------------------------------------------------------------------------
class Scheduler:
    """Baton passing.  All methods are called by the baton holder (or by the
    main thread before any actor runs), so no lock is needed."""

    def __init__(self, actors, policy, rng, replay=None, est_steps=None):
        self.actors = actors
        self.n = len(actors)
        self.policy = policy or {"kind": "rtc"}
        self.rng = rng
        self.replay = list(replay) if replay is not None else None
        self.replay_pos = 0
        self.segments = []
        self.cur = None
        self.budget = 0
        self.total_steps = 0
        self.switches = 0
        self.max_steps = INF
        self.gc_every = 0
        self.gc_interval = 0
        self.gc_next = 0
        self.gc_count = 0
        self.hung = False
        self.forced = None
        self.directed_switches = 0
        self.blocked_waits = 0
        self.deadline_s = 300.0
        self.main_sem = threading.Semaphore(0)
        self.switch_hook = None
        k = self.policy.get("kind")
        if k == "pct":
            order = list(range(self.n))
            rng.shuffle(order)
            self.prio = {a: p for p, a in enumerate(order)}  # higher = runs first
            tot = max(2, int(est_steps or 1000))
            self.change_points = sorted(
                rng.randrange(1, tot) for _ in range(int(self.policy.get("d", 1)))
            )
            self.low = -1
        elif k == "rtc":
            order = list(range(self.n))
            rng.shuffle(order)
            self.order = order
        elif k == "directed":
            self.policy.setdefault("mean", 100)
        elif k == "starve":
            self.victim = rng.randrange(self.n)
            tot = max(2, int(est_steps or 1000))
            self.release_at = (
                INF if rng.random() < 0.5 else rng.randrange(tot // 4 + 1, 2 * tot + 2)
            )

    # -- decisions --------------------------------------------------------
    def _runnable(self):
        return [a for a in self.actors if not a.done and a.blocked_on is None]

    def _decide(self, frm):
        """Choose self.cur and self.budget (>=1) among the runnable actors
        (not finished, not waiting for a simulated lock).  frm: the actor at a
        yield point or None (start / after an actor finished)."""
        run = self._runnable()
        if not run:
            self.cur = None
            return
        if self.replay is not None:
            while self.replay_pos < len(self.replay):
                seg = self.replay[self.replay_pos]
                self.replay_pos += 1
                try:
                    idx, n = int(seg[0]), int(seg[1])
                except Exception:
                    continue
                if 0 <= idx < self.n and n > 0 and self.actors[idx] in run:
                    self._set(self.actors[idx], n)
                    return
            self._set(run[0], INF)
            return
        k = self.policy.get("kind")
        rng = self.rng
        if k == "uniform":
            self._set(rng.choice(run), 1)
        elif k in ("geom", "directed"):
            self._set(rng.choice(run), geometric(rng, self.policy.get("mean", 10)))
        elif k == "pct":
            while self.change_points and self.change_points[0] <= self.total_steps:
                self.change_points.pop(0)
                if frm is not None:
                    self.prio[frm.idx] = self.low
                    self.low -= 1
            best = max(run, key=lambda a: self.prio[a.idx])
            nxt = self.change_points[0] - self.total_steps if self.change_points else INF
            self._set(best, max(1, nxt))
        elif k == "starve":
            others = [a for a in run if a.idx != self.victim]
            if self.total_steps >= self.release_at or not others:
                self._set(rng.choice(run), geometric(rng, self.policy.get("mean", 10)))
            else:
                b = geometric(rng, self.policy.get("mean", 10))
                b = min(b, max(1, self.release_at - self.total_steps))
                self._set(rng.choice(others), b)
        else:  # rtc
            for idx in self.order:
                if self.actors[idx] in run:
                    self._set(self.actors[idx], INF)
                    return

    def _set(self, actor, budget):
        self.cur = actor
        self.budget = budget
        if self.segments and self.segments[-1][0] == actor.idx:
            return
        self.segments.append([actor.idx, 0])

    # -- called by actors -----------------------------------------------------
    def yield_point(self, a):
        if self.forced is not None:
            # "directed" policy: the running actor is at a line that writes shared
            # state - hand over now, for the given quantum
            q, self.forced = self.forced, None
            others = [x for x in self._runnable() if x is not a]
            if others and self.replay is None:
                self._set(self.rng.choice(others), q)
                self.directed_switches += 1
        if self.budget <= 0:
            self._decide(a)
        if self.cur is not a:
            self.switches += 1
            if a.last_site != "op-start":
                a.preempted_inside += 1
            if self.switch_hook is not None:
                self.switch_hook(a, self.cur)
            self.cur.sem.release()
            a.sem.acquire()
        if self.hung:
            raise StepCap("step cap exceeded (unwinding)")
        self.budget -= 1
        self.total_steps += 1
        a.steps += 1
        self.segments[-1][1] += 1
        if self.gc_every and self.total_steps >= self.gc_next:
            # collection points thin out geometrically (every, 3*every, 7*every, ...):
            # a collection walks everything the run has allocated so far, and a fixed
            # interval made runs on long inputs quadratic (a 5 x 275 kB history did
            # not finish in 600 s)
            self.gc_count += 1
            self.gc_interval *= 2
            self.gc_next = self.total_steps + self.gc_interval
            gc.collect()
        if self.total_steps > self.max_steps:
            self.hung = True
            raise StepCap("step cap exceeded")

    def yield_blocked(self, a, obj):
        """`a` waits for the simulated lock / event `obj`: it is not runnable
        until somebody releases `obj`; somebody else takes the next step (a
        scheduling decision like any other).  Nobody runnable = deadlock."""
        self.blocked_waits += 1
        a.blocked_on = obj
        self.budget = 0
        self._decide(a)
        if self.cur is None:
            a.blocked_on = None
            self.hung = True
            raise StepCap("deadlock: every unfinished actor waits for a lock")
        self.switches += 1
        self.cur.sem.release()
        a.sem.acquire()
        if self.hung:
            raise StepCap("step cap exceeded (unwinding)")
        self.budget -= 1
        self.total_steps += 1
        a.steps += 1
        self.segments[-1][1] += 1
        if self.total_steps > self.max_steps:
            self.hung = True
            raise StepCap("step cap exceeded")

    def unblock(self, obj):
        for x in self.actors:
            if x.blocked_on is obj:
                x.blocked_on = None

    def finished(self, a):
        a.done = True
        self.budget = 0
        self._decide(None)
        if self.cur is None and any(not x.done for x in self.actors):
            # the rest waits for locks nobody will release: unwind them as hung
            self.hung = True
            for x in self.actors:
                x.blocked_on = None
            self._decide(None)
        if self.cur is None:
            self.main_sem.release()
        else:
            self.cur.sem.release()

    def start(self):
        self._decide(None)
        if self.cur is None:
            return
        self.cur.sem.release()
        if not self.main_sem.acquire(timeout=self.deadline_s):
            # every actor is parked or one is spinning: the machinery cannot
            # continue with these threads
            _POOL.clear()
            raise HarnessError("run did not finish within %.0f s (scheduler deadlock or endless loop)" % self.deadline_s)


# --------------------------------------------------------------------------
# Actors and the seams
# --------------------------------------------------------------------------
class Actor:
    def __init__(self, idx, spec):
        self.idx = idx
        self.spec = spec
        self.ops = spec["ops"]
        self.reuse = bool(spec.get("reuse"))
        self.sem = threading.Semaphore(0)
        self.done = False
        self.steps = 0
        self.objs = {}
        self.results = []
        self.keep = []  # every AST ever returned, kept alive (no id() reuse)
        self.node_ids = set()
        self.coord_ids = set()
        # per-op state
        self.op = None
        self.fault = None
        self.fault_fired = False
        self.abort_deferred = False
        self.armed_in = None  # countdown (in tokens / lines) once armed
        self.tok_calls = 0
        self.line_count = 0
        self.toklog = None
        self.event_counts = None
        self.last_filename = None
        self.abort_probe = None
        self.harness_error = None
        self.tracing = False
        self.last_site = "start"
        self.preempted_inside = 0
        self.thread_ident = None
        self.after_shared_write = False
        self.held_locks = 0
        self.returned = []
        self.gen_asts = {}
        self.blocked_on = None
        self.vfile = None
        self.ntok = 0
        self.tokhash = 0
        self.sw_steps = []
        self.in_nested = False
        self.nest = None  # same-thread nesting plan of the current op
        self.nest_out = None
        self.runner = None


def _peek(obj, name):
    """Read an instance attribute for a statistic WITHOUT running any code of
    the tree under test (no properties, no __getattr__): instance dict only."""
    try:
        return obj.__dict__.get(name)
    except Exception:
        return None


def make_sim_lexer(world, actor):
    """A subclass of the real CLexer that delegates to it; the public lexer=
    seam.  It yields to the scheduler, injects seam-aborts and logs tokens."""
    base = world.pyc.c_lexer.CLexer
    sched = world.sched

    class SimLexer(base):
        _sim_actor = actor

        def token(self):
            a = world.by_thread.get(threading.get_ident(), actor)
            if a is not actor:
                # this lexer instance belongs to another actor's parser: a
                # cross-instance leak in itself (witness), and the scheduler
                # must be told who is really running
                world.foreign_lexer_calls += 1
            a.tok_calls += 1
            f = a.fault
            if f is not None and not a.fault_fired and f["kind"] == "seam-abort":
                fire = False
                if a.armed_in is not None:
                    a.armed_in -= 1
                    fire = a.armed_in <= 0
                elif f.get("at") == a.tok_calls:
                    fire = True
                if fire or a.abort_deferred:
                    if a.held_locks:
                        a.abort_deferred = True  # not inside a critical section
                    else:
                        a.abort_deferred = False
                        world.fire_abort(a, self, None)
            if not a.tracing:
                sched.yield_point(a)
            nest = a.nest
            if nest is not None and a.tok_calls >= nest["at"] and a is actor:
                # interleaving on ONE thread: the program calls other parsers /
                # generators from inside this parse (a callback, a generator-style
                # driver) and comes back - no second thread involved
                a.nest = None
                world.nested_calls += 1
                a.in_nested = True
                try:
                    a.nest_out = a.runner._run_inner(nest["ops"])
                except simsync.NestInfeasible:
                    # the inner call would wait for a lock its own outer call holds:
                    # not a schedulable interleaving; the inner call is made afterwards
                    a.nest_out = None
                    world.fired["nest-infeasible-lock"] = world.fired.get("nest-infeasible-lock", 0) + 1
                finally:
                    a.in_nested = False
            tok = base.token(self)
            world.log_token(a, self, tok)
            return tok

    return SimLexer


class World:
    def __init__(self, pyc, spec, policy_rng=None):
        self.pyc = pyc
        self.spec = spec
        self.mode = spec.get("mode", "token")
        self.check_fresh = bool(spec.get("check_fresh"))
        self.actors = [Actor(i, a) for i, a in enumerate(spec["actors"])]
        rng = policy_rng or random.Random(H("sched", spec.get("sched_seed", 0)))
        self.sched = Scheduler(
            self.actors,
            spec.get("policy"),
            rng,
            replay=spec.get("schedule"),
            est_steps=spec.get("est_steps"),
        )
        # garbage collection is a source of nondeterminism (when cyclic garbage
        # such as a dropped parser<->lexer pair is freed decides which addresses
        # - id()s - get reused): the automatic collector is off during a run and
        # collections happen only where the run's plan says so
        g = spec.get("gc") or {"mode": "op-end"}
        self.gc_mode = g.get("mode", "op-end")
        self.gc_every = int(g.get("every", 500))
        self.gc_runs = 0
        self.sched.max_steps = int(spec.get("max_steps", 50_000_000))
        if self.gc_mode == "steps":
            self.sched.gc_every = max(1, self.gc_every)
            self.sched.gc_interval = self.sched.gc_every
            self.sched.gc_next = self.sched.gc_every
        self.sched.deadline_s = float(spec.get("deadline_s", 300.0))
        self.sched.switch_hook = self.on_switch if spec.get("probes", True) else None
        self.directed_lines = None
        if (spec.get("policy") or {}).get("kind") == "directed" and self.mode == "line" and spec.get("schedule") is None:
            try:
                self.directed_lines = directed.shared_write_lines(pyc) or None
            except Exception:
                self.directed_lines = None
        self.record_lines = None
        if spec.get("record_shared_writes") and self.mode == "line":
            # solo profile run: at which of its steps does this actor execute a line
            # that writes state other instances can see?  (directs a sweep, no verdict)
            try:
                self.record_lines = directed.shared_write_lines(pyc) or None
            except Exception:
                self.record_lines = None
        self.code_cache = {}
        self.by_thread = {}
        self.foreign_lexer_calls = 0
        self.nested_calls = 0
        self.vfs = {}
        self.io_yields = 0
        self.probes = {}
        self.switch_sites = {}
        self.fired = {}

    # -- I/O seam for parse_file --------------------------------------------
    def install_io_seam(self):
        if getattr(self, "_io_installed", False):
            return
        self._io_installed = True
        world = self
        pkg = self.pyc.pycparser
        by_thread = {}

        def cur_actor():
            t = threading.get_ident()
            a = by_thread.get(t)
            if a is None:
                for x in world.actors:
                    if x.thread_ident == t:
                        a = by_thread[t] = x
                        break
            return a

        class _FakeFile:
            def __init__(self, text, fault):
                self.text = text
                self.fault = fault or {}

            def __enter__(self):
                return self

            def __exit__(self, *exc):
                return False

            def read(self):
                k = self.fault.get("kind")
                if k == "decode-error":
                    world.fired["io:decode-error"] = world.fired.get("io:decode-error", 0) + 1
                    raise UnicodeDecodeError("utf-8", b"\xff", 0, 1, "invalid start byte (injected)")
                if k == "short-read":
                    world.fired["io:short-read"] = world.fired.get("io:short-read", 0) + 1
                    return self.text[: int(self.fault.get("at", 0))]
                return self.text

        vfs = world.vfs  # path -> text: the part of the file system all actors share

        def io_yield(a):
            # a system call: the thread may lose the processor here
            if a is not None and not a.done and world.sched.cur is a:
                world.io_yields += 1
                world.sched.yield_point(a)

        class _FakeWriter:
            def __init__(self, path):
                self.path = path
                self.parts = []
                vfs[path] = ""  # opening for writing creates / truncates the file

            def __enter__(self):
                return self

            def write(self, text):
                self.parts.append(text)
                vfs[self.path] = "".join(self.parts)
                return len(text)

            def close(self):
                pass

            def __exit__(self, *exc):
                return False

        class _FakeOS:
            """What the package sees as `os` if it imports it: everything real except
            the calls that change the file system, which act on the shared fake one
            (the real file system is never touched)."""

            def __getattr__(self, name):
                import os as _os

                return getattr(_os, name)

            @staticmethod
            def remove(path, *args, **kw):
                io_yield(cur_actor())
                if path not in vfs:
                    raise FileNotFoundError(2, "No such file or directory (sim)", path)
                del vfs[path]

            unlink = remove

        class _FakeIO:
            @staticmethod
            def open(filename, mode="r", *args, **kw):
                a = cur_actor()
                io_yield(a)
                v = a.vfile if a is not None else None
                if any(c in str(mode) for c in "wax+"):
                    world.fired["io:scratch-write"] = world.fired.get("io:scratch-write", 0) + 1
                    return _FakeWriter(filename)
                if v is not None and filename != v.get("filename") and filename in vfs:
                    return _FakeFile(vfs[filename], {})
                if v is None:
                    raise FileNotFoundError(2, "No such file (sim)", filename)
                f = v.get("fault") or {}
                if f.get("kind") == "open-error":
                    world.fired["io:open-error"] = world.fired.get("io:open-error", 0) + 1
                    raise PermissionError(13, "Permission denied (injected)", filename)
                return _FakeFile(v["text"], f)

        def fake_check_output(path_list, **kw):
            a = cur_actor()
            io_yield(a)  # the subprocess starts ...
            v = a.vfile if a is not None else None
            f = (v or {}).get("fault") or {}
            if f.get("kind") == "cpp-missing":
                world.fired["io:cpp-missing"] = world.fired.get("io:cpp-missing", 0) + 1
                raise FileNotFoundError(2, "No such file or directory (injected)", path_list[0])
            if f.get("kind") == "cpp-fails":
                import subprocess

                world.fired["io:cpp-fails"] = world.fired.get("io:cpp-fails", 0) + 1
                raise subprocess.CalledProcessError(1, path_list)
            text = v["text"] if v else ""
            fn = v["filename"] if v else "x.c"
            src = path_list[-1] if path_list else fn
            if v and src != fn:
                # cpp was handed another path than the caller's file (a scratch copy):
                # it reads what is at that path in the shared file system *now*
                if src not in vfs:
                    import subprocess

                    raise subprocess.CalledProcessError(1, path_list)
                text, fn = vfs[src], src
            io_yield(a)  # ... and takes its time
            if f.get("kind") == "short-read":
                world.fired["io:short-read"] = world.fired.get("io:short-read", 0) + 1
                text = text[: int(f.get("at", 0))]
            # what a preprocessor does to the outside observer: line markers
            return '# 1 "%s"\n# 1 "<built-in>"\n# 1 "%s"\n%s' % (fn, fn, text)

        pkg.io = _FakeIO
        pkg.check_output = fake_check_output
        import os as _real_os

        for name, val in list(vars(pkg).items()):
            if val is _real_os:
                setattr(pkg, name, _FakeOS())

    # -- probes -------------------------------------------------------------
    def probe(self, name, n=1):
        self.probes[name] = self.probes.get(name, 0) + n

    def on_switch(self, frm, to):
        # statistics only; must never influence the run
        try:
            site = (frm.last_site or "?") + "->" + (to.last_site or "?")
            self.switch_sites[site] = self.switch_sites.get(site, 0) + 1
            p = frm.objs.get("_cur_parser")
            if p is not None:
                ts = _peek(p, "_tokens")
                if ts is not None and len(_peek(ts, "_buffer")) > _peek(ts, "_index"):
                    self.probe("switch_with_lookahead")
                if len(_peek(p, "_scope_stack")) > 1:
                    self.probe("switch_inside_scope")
                q = to.objs.get("_cur_parser")
                if q is not None:
                    # read the scope dicts directly: calling a method of the code
                    # under test from a probe may have side effects (it did: a
                    # look-up memo was filled at a moment the parser itself never
                    # looks a name up, which produced a false alarm)
                    def meaning(parser, nm):
                        for scope in reversed(_peek(parser, "_scope_stack")):
                            if nm in scope:
                                return scope[nm]
                        return False

                    for nm in ("T", "U", "V", "x", "y", "f"):
                        if meaning(p, nm) != meaning(q, nm):
                            self.probe("switch_conflicting_typedef_meaning")
                            break
        except Exception:
            pass

    # -- token log / events -----------------------------------------------------
    def log_token(self, a, lexer, tok):
        try:
            fn = lexer.filename
        except Exception:
            fn = "<?>"
        t = canon.tok_form(tok)
        rec = (t, fn)
        a.tokhash = H(a.tokhash, rec)
        a.ntok += 1
        if a.toklog is not None and len(a.toklog) < TOKLOG_LIMIT:
            a.toklog.append(rec)
        a.last_site = "tok:" + (t[0] if t else "EOF")
        f = a.fault
        if f is None or a.fault_fired or a.armed_in is not None:
            a.last_filename = fn
            return
        after = f.get("after")
        if after:
            ev = t[0] if t else "EOF"
            if fn != a.last_filename and a.ntok > 1:
                ev2 = "FILECHG"
            else:
                ev2 = None
            for e in (ev, ev2):
                if e is not None and e == after[0]:
                    c = a.event_counts.get(e, 0) + 1
                    a.event_counts[e] = c
                    if c == after[1]:
                        a.armed_in = int(f.get("plus", 1))
        a.last_filename = fn

    # -- faults -------------------------------------------------------------
    def fire_abort(self, a, lexer_or_none, frame):
        a.fault_fired = True
        f = a.fault
        self.fired[f["kind"]] = self.fired.get(f["kind"], 0) + 1
        probe = {}
        try:
            p = a.objs.get("_cur_parser")
            if p is not None:
                probe["scope_depth"] = len(_peek(p, "_scope_stack"))
                probe["pending_tok"] = _peek(_peek(p, "clex"), "_pending_tok") is not None
                ts = _peek(p, "_tokens")
                probe["lookahead"] = len(_peek(ts, "_buffer")) - _peek(ts, "_index")
            lx = a.objs.get("_cur_lexer")
            if lx is not None:
                probe["pending_tok"] = _peek(lx, "_pending_tok") is not None
            fr = frame if frame is not None else sys._getframe(1)
            names = []
            while fr is not None and len(names) < 200:
                names.append(fr.f_code.co_name)
                fr = fr.f_back
            probe["speculative"] = any(
                n in ("_try_parse_paren_type_name", "_peek_declarator_name_info")
                for n in names
            )
            probe["where"] = next(
                (n for n in names if n not in ("token", "fire_abort", "tracer", "local")),
                "?",
            )
            if frame is not None:
                probe["line"] = "%s:%d" % (
                    os.path.basename(frame.f_code.co_filename),
                    frame.f_lineno,
                )
        except Exception:
            pass
        a.abort_probe = probe
        raise EXC_CLASSES.get(f.get("exc"), SimAbort)("injected " + f["kind"])

    # -- line tracing -----------------------------------------------------------
    def make_tracer(self, a):
        prefix = self.pyc.prefix
        cache = self.code_cache
        sched = self.sched
        world = self
        yield_lines = self.mode == "line"
        dlines = self.directed_lines
        rlines = self.record_lines
        drng = self.sched.rng

        def local(frame, event, arg):
            if event == "line":
                a.line_count += 1
                if rlines is not None and (frame.f_code, frame.f_lineno) in rlines and len(a.sw_steps) < 400:
                    a.sw_steps.append(a.steps)
                if dlines is not None:
                    # pre-empt right before a line that writes shared state, or right after it
                    hit = a.after_shared_write
                    a.after_shared_write = False
                    if (frame.f_code, frame.f_lineno) in dlines:
                        a.after_shared_write = True
                        hit = True
                    if hit and drng.random() < 0.5:
                        sched.forced = drng.choice([6, 40, 250, INF])
                f = a.fault
                if f is not None and not a.fault_fired and f["kind"] == "line-abort":
                    due = a.abort_deferred
                    if a.armed_in is not None:
                        a.armed_in -= 1
                        if a.armed_in <= 0:
                            due = True
                    elif f.get("at") == a.line_count:
                        due = True
                    if due:
                        if a.held_locks:
                            a.abort_deferred = True  # not inside a critical section
                        else:
                            a.abort_deferred = False
                            world.fire_abort(a, None, frame)
                if yield_lines:
                    a.last_site = frame.f_code.co_name
                    sched.yield_point(a)
            return local

        def tracer(frame, event, arg):
            code = frame.f_code
            ok = cache.get(code)
            if ok is None:
                ok = code.co_filename.startswith(prefix)
                cache[code] = ok
            return local if ok else None

        return tracer


def op_text(op):
    if "text" in op:
        return op["text"]
    return "\n".join(op["items"]) + ("\n" if op.get("items") else "")


# --------------------------------------------------------------------------
# Executing operations
# --------------------------------------------------------------------------
def _outcome_ok(kind, text, extra=None):
    d = digest(text)
    return {
        "k": kind,
        "d": d,
        "full": text if len(text) <= FULL_FORM_LIMIT else None,
        "len": len(text),
        "x": extra,
    }


def _outcome_exc(e):
    if isinstance(e, MemoryError) and str(e).startswith("injected "):
        raise e
    if isinstance(e, RecursionError):
        return {"k": "rec", "d": "rec"}
    msg = "%s: %s" % (type(e).__name__, e)
    return {"k": "exc", "d": digest(msg), "full": msg}


def same_outcome(a, b):
    """Outcome equality; 'rec' (RecursionError: depends on the caller's stack
    depth) and aborted/skipped operations are never compared."""
    if a is None or b is None:
        return True
    if a["k"] in ("rec", "abort") or b["k"] in ("rec", "abort"):
        return True
    return a["k"] == b["k"] and a["d"] == b["d"]


class OpRunner:
    """Runs one op for one actor.  `traced` ops run under sys.settrace in line
    mode (pre-emption + line-abort) or when the op carries a line-abort."""

    def __init__(self, world, actor):
        self.w = world
        self.a = actor
        self.pyc = world.pyc

    # object management -----------------------------------------------------
    def obj(self, key, factory):
        a = self.a
        if a.reuse:
            o = a.objs.get(key)
            if o is None:
                o = a.objs[key] = factory()
            return o
        return factory()

    def new_parser(self, sim):
        if sim:
            return self.pyc.c_parser.CParser(lexer=make_sim_lexer(self.w, self.a))
        return self.pyc.c_parser.CParser()

    # running under trace ---------------------------------------------------
    def call(self, fn, *args):
        a = self.a
        need_trace = self.w.mode == "line" or (
            a.fault is not None and a.fault["kind"] == "line-abort"
        )
        if not need_trace or self.op.get("untraced"):
            return fn(*args)
        tracer = self.w.make_tracer(a)
        a.tracing = self.w.mode == "line"
        sys.settrace(tracer)
        try:
            return fn(*args)
        finally:
            sys.settrace(None)
            a.tracing = False

    def begin(self, op):
        a = self.a
        self.op = op
        a.op = op
        a.fault = op.get("fault")
        if a.fault is not None and a.fault["kind"] not in ("seam-abort", "line-abort"):
            a.fault = None
        a.fault_fired = False
        a.abort_deferred = False
        a.armed_in = None
        a.tok_calls = 0
        a.line_count = 0
        a.ntok = 0
        a.tokhash = 0
        a.toklog = []
        a.event_counts = {}
        a.last_filename = None
        a.abort_probe = None
        a.last_site = "op-start"
        a.runner = self
        a.nest_out = None
        a.nest = op.get("nest") if not self.w.spec.get("nest_sequential") else None
        a.objs.pop("_cur_parser", None)
        a.objs.pop("_cur_lexer", None)

    def run(self, op):
        a = self.a
        self.begin(op)
        self.w.sched.yield_point(a)  # op boundary is a yield point
        kind = op["op"]
        res = {"op": kind}
        old_limit = None
        try:
            if op.get("reclimit"):
                old_limit = sys.getrecursionlimit()
                depth = 0
                fr = sys._getframe()
                while fr is not None:
                    depth += 1
                    fr = fr.f_back
                sys.setrecursionlimit(depth + max(16, int(op["reclimit"]) + int(self.w.spec.get("recursion_delta", 0))))
            try:
                getattr(self, "op_" + kind)(op, res)
            finally:
                if old_limit is not None:
                    sys.setrecursionlimit(old_limit)
        except (KeyboardInterrupt, MemoryError, SimAbort) as e:
            if not a.fault_fired:
                raise
            res["out"] = {"k": "abort", "d": type(e).__name__}
            res["abort_probe"] = a.abort_probe
        except StepCap:
            res["out"] = {"k": "hang", "d": "hang"}
            res["hang"] = True
            sys.settrace(None)
            a.tracing = False
        a.nest = None
        if op.get("nest"):
            if a.nest_out is None and (res.get("out") or {}).get("k") not in ("abort", "hang", None):
                # the reference order (and the fallback when the parse ended before the
                # nesting point): the inner calls one after the other, after the outer one
                try:
                    a.nest_out = self._run_inner(op["nest"]["ops"])
                    res["nest_sequential"] = True
                except (KeyboardInterrupt, MemoryError, SimAbort, StepCap):
                    a.nest_out = None
            res["nest_out"] = a.nest_out
        res["ntok"] = a.ntok
        res["tokhash"] = "%016x" % a.tokhash
        res["toklog"] = a.toklog if a.ntok <= TOKLOG_LIMIT else None
        res["nline"] = a.line_count
        res["fault_fired"] = a.fault_fired
        if a.fault is not None and not a.fault_fired:
            res["fault_missed"] = True
        a.fault = None
        return res

    def _run_inner(self, ops):
        """Brand-new parser (and generator) per inner call, plain lexer; returns the
        list of outcomes.  Runs on the calling actor's thread."""
        a = self.a
        outs = []
        for iop in ops:
            text = op_text(iop)
            fn = iop.get("filename", "")
            try:
                ast = self.pyc.c_parser.CParser().parse(text, fn)
                a.keep.append(ast)
                if iop.get("op") == "gen":
                    s = self.pyc.c_generator.CGenerator(reduce_parentheses=bool(iop.get("reduce"))).visit(ast)
                    outs.append(["ok", s if isinstance(s, str) else repr(s)])
                else:
                    outs.append(["ok", canon.ast_form(ast, self.pyc.Node).text])
            except RecursionError:
                outs.append(["rec", ""])
            except (KeyboardInterrupt, MemoryError, SimAbort, StepCap):
                raise
            except Exception as e:
                outs.append(["exc", _outcome_exc(e).get("full") or _outcome_exc(e).get("d")])
        return outs

    # -- parse ------------------------------------------------------------------
    def _parse_outcome(self, parser, text, filename, keep, traced=True):
        """parse and canonicalise; returns (outcome, ast_or_None, form_or_None)"""
        try:
            if traced:
                ast = self.call(parser.parse, text, filename)
            else:
                ast = parser.parse(text, filename)
        except Exception as e:
            return _outcome_exc(e), None, None
        form = canon.ast_form(ast, self.pyc.Node)
        out = _outcome_ok("ok", form.text, {"nodes": form.n_nodes, "backrefs": form.n_backrefs})
        if keep:
            self.a.keep.append(ast)
        return out, ast, form

    def _share_check(self, form, res, ast=None):
        a = self.a
        if ast is not None:
            # remember what was handed out, to see at the end of the script whether a
            # later call changed it (shared mutable parts that are not nodes)
            a.returned.append((len(a.results), ast, digest(form.text)))
        shared = form.ids & a.node_ids
        if shared:
            res["shared_nodes"] = len(shared)
        res["shared_coords"] = len(form.coord_ids & a.coord_ids)
        a.node_ids |= form.ids
        a.coord_ids |= form.coord_ids

    def _leak_info(self, form, res):
        if form is not None:
            res["files"] = sorted(form.files)
            res["line_min"] = min(form.lines) if form.lines else None
            res["line_max"] = max(form.lines) if form.lines else None
            res["lines_by_100k"] = sorted({ln // 100000 for ln in form.lines})

    def op_parse(self, op, res):
        a = self.a
        sim = op.get("obj", "P1") != "P0"
        parser = self.obj(op.get("obj", "P1"), lambda: self.new_parser(sim))
        a.objs["_cur_parser"] = parser
        text = op_text(op)
        filename = op.get("filename", "")
        out, ast, form = self._parse_outcome(parser, text, filename, keep=True)
        res["out"] = out
        if form is not None:
            self._share_check(form, res, ast)
            self._leak_info(form, res)
        try:
            res["post"] = {
                "scope_depth": len(_peek(parser, "_scope_stack")),
                "pending": _peek(_peek(parser, "clex"), "_pending_tok") is not None,
            }
        except Exception:
            pass
        a.objs.pop("_cur_parser", None)
        if self.w.check_fresh:
            fout, fast, fform = self._parse_outcome(
                self.pyc.c_parser.CParser(), text, filename, keep=True, traced=False
            )
            res["fresh"] = fout
            if fform is not None:
                # a brand-new instance must not hand out old nodes either
                sh = fform.ids & a.node_ids
                if sh:
                    res["fresh_shared_nodes"] = len(sh)
                a.node_ids |= fform.ids

    # -- the caller handles the long-lived objects the way Python programs do ------
    def op_poke(self, op, res):
        """Between two calls a program may copy, pickle, print or introspect its
        parser / lexer / generator objects.  None of that is a use of the object in
        the sense of C12, so nothing any later call returns may change.  Failures
        of these interactions are ignored; the op itself is never compared."""
        import copy
        import pickle

        a = self.a
        res["out"] = {"k": "abort", "d": "poke"}
        what = op.get("what") or ["repr", "copy", "deepcopy", "pickle", "dir", "eq"]
        n = 0
        for key, obj in list(a.objs.items()):
            if key.startswith("_"):
                continue
            o = obj[0] if isinstance(obj, tuple) else obj
            for w in what:
                try:
                    if w == "repr":
                        repr(o), str(o)
                    elif w == "copy":
                        copy.copy(o)
                    elif w == "deepcopy":
                        copy.deepcopy(o)
                    elif w == "pickle":
                        pickle.loads(pickle.dumps(o))
                    elif w == "dir":
                        dir(o), vars(o), hash(o), bool(o)
                    elif w == "eq":
                        o == o, o != object()
                    n += 1
                except (KeyboardInterrupt, SystemExit):
                    raise
                except BaseException:
                    pass
        res["pokes"] = n

    # -- the caller edits an AST it was given ---------------------------------------
    def op_mutate(self, op, res):
        """What user code does with results (cf. examples/rewrite_ast.py): modify
        them.  Appends a marker to every list of strings (quals, storage, funcspec,
        names, ...) of an AST returned by an earlier call of this history.  In a
        correct tree the caller owns that AST, so nothing any later call returns
        can change.  The op itself is never compared."""
        a = self.a
        res["out"] = {"k": "abort", "d": "caller-mutation"}
        if not a.returned:
            return
        j = int(op.get("target", 0)) % len(a.returned)
        opi, ast, d0 = a.returned[j]
        n = 0
        seen = set()
        stack = [ast]
        Node = self.pyc.Node
        while stack:
            v = stack.pop()
            if isinstance(v, Node):
                if id(v) in seen:
                    continue
                seen.add(id(v))
                for sname in type(v).__slots__:
                    if sname == "__weakref__":
                        continue
                    try:
                        stack.append(getattr(v, sname))
                    except AttributeError:
                        pass
            elif isinstance(v, list):
                if id(v) in seen:
                    continue
                seen.add(id(v))
                if all(isinstance(x, str) for x in v):
                    v.append("__caller_edit__")
                    n += 1
                else:
                    stack.extend(v)
        res["lists_edited"] = n
        # the edited AST is the caller's business now: do not report it as "mutated later"
        a.returned[j] = (opi, ast, digest(canon.ast_form(ast, Node).text))

    # -- parse_file: the package-level convenience API, reused parser, I/O seam ----
    def op_parse_file(self, op, res):
        """pycparser.parse_file(filename, use_cpp, ..., parser=<long-lived parser>)
        with the file system and the cpp subprocess behind a seam (fake `io` /
        `check_output` in the package namespace, installed once per world and
        dispatching on the calling actor thread).  I/O faults: open error,
        decode error, short read, cpp missing, cpp failing."""
        a = self.a
        sim = op.get("obj", "P1") != "P0"
        if op.get("default_parser"):
            parser = None  # let parse_file supply its own (today: a new CParser per call)
        else:
            parser = self.obj(op.get("obj", "P1"), lambda: self.new_parser(sim))
            a.objs["_cur_parser"] = parser
        self.w.install_io_seam()
        text = op_text(op)
        filename = op.get("filename", "")
        a.vfile = {"text": text, "fault": op.get("io_fault"), "filename": filename}
        pkg = self.pyc.pycparser

        def run():
            return pkg.parse_file(
                filename,
                use_cpp=bool(op.get("use_cpp")),
                cpp_path=op.get("cpp_path", "cpp"),
                cpp_args=op.get("cpp_args", ""),
                parser=parser,
                encoding=op.get("encoding"),
            )

        try:
            ast = self.call(run)
        except Exception as e:
            res["out"] = _outcome_exc(e)
            ast = None
        if ast is not None:
            form = canon.ast_form(ast, self.pyc.Node)
            res["out"] = _outcome_ok("ok", form.text, {"nodes": form.n_nodes})
            a.keep.append(ast)
            self._share_check(form, res)
            self._leak_info(form, res)
        a.vfile = None
        a.objs.pop("_cur_parser", None)
        if self.w.check_fresh:
            a.vfile = {"text": text, "fault": op.get("io_fault"), "filename": filename}
            try:
                fast = pkg.parse_file(
                    filename,
                    use_cpp=bool(op.get("use_cpp")),
                    cpp_path=op.get("cpp_path", "cpp"),
                    cpp_args=op.get("cpp_args", ""),
                    encoding=op.get("encoding"),
                )
                fform = canon.ast_form(fast, self.pyc.Node)
                res["fresh"] = _outcome_ok("ok", fform.text)
                a.keep.append(fast)
                sh = fform.ids & a.node_ids
                if sh:
                    res["fresh_shared_nodes"] = len(sh)
                a.node_ids |= fform.ids
            except Exception as e:
                res["fresh"] = _outcome_exc(e)
            a.vfile = None

    # -- generate -----------------------------------------------------------------
    def _select(self, ast, select):
        if not select or select[0] == "root":
            return ast
        for cls in [select[0]] + list(select[2] if len(select) > 2 else []):
            nodes = canon.find_nodes(ast, self.pyc.Node, cls)
            if nodes:
                return nodes[int(select[1]) % len(nodes)]
        return ast

    def op_gen(self, op, res):
        a = self.a
        text = op_text(op)
        prev = a.gen_asts.get((text, op.get("filename", "g.c"))) if op.get("same_ast") else None
        if prev is not None:
            # visit (another node of) the very AST object an earlier visit of this
            # history already walked - ordinary use of one generator on one tree
            pout, ast = prev
            res["same_ast_object"] = True
        else:
            pout, ast, pform = self._parse_outcome(
                self.pyc.c_parser.CParser(), text, op.get("filename", "g.c"), keep=True, traced=False
            )
            a.gen_asts[(text, op.get("filename", "g.c"))] = (pout, ast)
        res["input"] = {"k": pout["k"], "d": pout["d"]}
        if ast is None:
            res["out"] = {"k": "noinput", "d": pout["d"]}
            return
        node = self._select(ast, op.get("select"))
        res["node"] = type(node).__name__
        red = bool(op.get("reduce"))
        gcls = get_generator_class(self.pyc, op.get("gencls"))
        key = op.get("obj", ("G1" if red else "G0") + ":" + str(op.get("gencls")))
        gen = self.obj(key, lambda: gcls(reduce_parentheses=red))
        try:
            s = self.call(gen.visit, node)
            if not isinstance(s, str):
                s = repr(s)
            res["out"] = _outcome_ok("ok", s)
        except (KeyboardInterrupt, MemoryError, SimAbort):
            # injected abort in the middle of a visit: this generator is thrown away
            # (C12 promises nothing for it), everything else must be unaffected
            a.objs.pop(key, None)
            raise
        except Exception as e:
            res["out"] = _outcome_exc(e)
            # C12 promises nothing for a generator after a *failed* visit
            a.objs.pop(key, None)
            res["gen_dropped"] = True
        if self.w.check_fresh:
            try:
                s2 = gcls(reduce_parentheses=red).visit(node)
                res["fresh"] = _outcome_ok("ok", s2 if isinstance(s2, str) else repr(s2))
            except Exception as e:
                res["fresh"] = _outcome_exc(e)

    # -- NodeVisitor --------------------------------------------------------------
    def op_visit(self, op, res):
        a = self.a
        text = op_text(op)
        pout, ast, pform = self._parse_outcome(
            self.pyc.c_parser.CParser(), text, op.get("filename", "v.c"), keep=True, traced=False
        )
        res["input"] = {"k": pout["k"], "d": pout["d"]}
        if ast is None:
            res["out"] = {"k": "noinput", "d": pout["d"]}
            return
        cls = get_visitor_class(self.pyc, op.get("visitor", "Collect"))
        tag = op.get("tag", "t%d" % a.idx)
        vis = self.obj("V:" + op.get("visitor", "Collect") + ":" + tag, lambda: cls(tag))
        start = len(vis.log)

        def walk():
            vis.visit(ast)
            extra = ""
            if op.get("show"):
                # the other read-only views of a tree: show(), repr(), children(), iteration
                import io as _io

                buf = _io.StringIO()
                ast.show(buf=buf, attrnames=True, nodenames=True, showcoord=True)
                extra = buf.getvalue() + repr(ast) + repr([(n, type(c).__name__) for n, c in ast.children()]) + repr([type(c).__name__ for c in ast])
            return extra

        try:
            extra = self.call(walk)
            res["out"] = _outcome_ok("ok", repr(vis.log[start:]) + extra)
        except (KeyboardInterrupt, MemoryError, SimAbort):
            a.objs.pop("V:" + op.get("visitor", "Collect") + ":" + tag, None)
            raise
        except Exception as e:
            res["out"] = _outcome_exc(e)

    # -- standalone lexer ---------------------------------------------------------
    def _make_lexer(self, sim):
        box = {"log": [], "errmode": "record"}

        def err(msg, line, col):
            box["log"].append(("E", msg, line, col))
            if box["errmode"] == "raise":
                raise LexCallbackError("%s:%s:%s" % (msg, line, col))

        def lb():
            box["log"].append(("{",))

        def rb():
            box["log"].append(("}",))

        def lookup(name):
            return name.startswith("T")

        cls = make_sim_lexer(self.w, self.a) if sim else self.pyc.c_lexer.CLexer
        lx = cls(error_func=err, on_lbrace_func=lb, on_rbrace_func=rb, type_lookup_func=lookup)
        box["_lexer"] = lx
        return (lx, box)

    @staticmethod
    def _drain(lx, op, text):
        take = op.get("take")
        if "filename" in op:
            lx.input(text, op["filename"])
        else:
            lx.input(text)
        toks = []
        n = 0
        while take is None or n < take:
            t = lx.token()
            toks.append((canon.tok_form(t), lx.filename))
            n += 1
            if t is None:
                break
            if n > 2_000_000:
                raise StepCap("lexer does not terminate")
        return toks

    def _lex_outcome(self, lx, box, op, text, traced):
        box["errmode"] = op.get("errmode", "record")
        start = len(box["log"])
        try:
            if traced:
                toks = self.call(self._drain, lx, op, text)
            else:
                toks = self._drain(lx, op, text)
            return _outcome_ok("ok", repr((toks, box["log"][start:])), {"ntoks": len(toks)})
        except Exception as e:
            out = _outcome_exc(e)
            if out["k"] == "exc":
                out = _outcome_ok("exc", repr((out["full"], box["log"][start:])))
            return out

    def op_lex(self, op, res):
        a = self.a
        sim = bool(op.get("sim"))
        lx, box = self.obj("L1" if sim else "L0", lambda: self._make_lexer(sim))
        if op.get("swap_callbacks") and a.reuse:
            # new callback functions on the public attributes of a lexer that has been used
            _, nbox = self._make_lexer(False)
            donor = nbox["_lexer"]
            for name in ("error_func", "on_lbrace_func", "on_rbrace_func", "type_lookup_func"):
                setattr(lx, name, getattr(donor, name))
            box = nbox
            a.objs["L1" if sim else "L0"] = (lx, box)
        a.objs["_cur_lexer"] = lx
        text = op_text(op)
        res["out"] = self._lex_outcome(lx, box, op, text, traced=True)
        try:
            res["post"] = {"pending": _peek(lx, "_pending_tok") is not None}
        except Exception:
            pass
        a.objs.pop("_cur_lexer", None)
        if self.w.check_fresh:
            flx, fbox = self._make_lexer(False)
            res["fresh"] = self._lex_outcome(flx, fbox, op, text, traced=False)

    # -- parse -> generate -> parse ------------------------------------------------
    def op_roundtrip(self, op, res):
        a = self.a
        sim = True
        parser = self.obj("P1", lambda: self.new_parser(sim))
        a.objs["_cur_parser"] = parser
        text = op_text(op)
        filename = op.get("filename", "")
        out, ast, form = self._parse_outcome(parser, text, filename, keep=True)
        parts = [out["k"], out["d"]]
        res["stage1"] = {"k": out["k"], "d": out["d"]}
        if out["k"] == "rec":
            res["out"] = out
            return
        if form is not None:
            self._share_check(form, res)
            self._leak_info(form, res)
        if ast is not None:
            red = bool(op.get("reduce"))
            gen = self.obj(
                "G1" if red else "G0",
                lambda: self.pyc.c_generator.CGenerator(reduce_parentheses=red),
            )
            try:
                s = self.call(gen.visit, ast)
                parts.append(s)
                res["gen_text"] = s if len(s) < FULL_FORM_LIMIT else None
            except RecursionError:
                res["out"] = {"k": "rec", "d": "rec"}
                a.objs.pop("G1" if red else "G0", None)
                return
            except Exception as e:
                parts.append(_outcome_exc(e)["full"])
                a.objs.pop("G1" if red else "G0", None)
                s = None
            if s is not None:
                parser2 = self.obj("P2", lambda: self.new_parser(sim))
                a.objs["_cur_parser"] = parser2
                out2, ast2, form2 = self._parse_outcome(parser2, s, filename, keep=True)
                if out2["k"] == "rec":
                    res["out"] = out2
                    return
                parts += [out2["k"], out2["d"]]
                if form2 is not None:
                    self._share_check(form2, res)
                    files = set(res.get("files", [])) | form2.files
                    res["files"] = sorted(files)
                    res["lines_by_100k"] = sorted(
                        set(res.get("lines_by_100k", [])) | {ln // 100000 for ln in form2.lines}
                    )
        a.objs.pop("_cur_parser", None)
        full = repr(parts)
        res["out"] = _outcome_ok("ok", full)
        if out["k"] == "exc":
            res["out"]["msg"] = out.get("full")


def get_generator_class(pyc, name):
    """CGenerator or a user-style subclass (hierarchy) defined against the tree
    under test; subclasses override a few visit_* methods."""
    if not name or name == "plain":
        return pyc.c_generator.CGenerator
    cls = pyc.visitor_classes.get("gen:" + name)
    if cls is not None:
        return cls
    Base = pyc.c_generator.CGenerator
    if name == "Upper":

        class UpperGen(Base):
            def visit_ID(self, n):
                return n.name.upper()

            def visit_Constant(self, n):
                return "<" + n.value + ">"

        cls = UpperGen
    else:
        Mid = get_generator_class(pyc, "Upper")

        class UpperMoreGen(Mid):
            def visit_ID(self, n):
                return "_" + n.name + "_"

            def visit_Return(self, n):
                return "RETURN " + (self.visit(n.expr) if n.expr else "") + ";"

            def visit_Break(self, n):
                return "BREAK;"

        cls = UpperMoreGen
    pyc.visitor_classes["gen:" + name] = cls
    return cls


def get_visitor_class(pyc, name):
    """NodeVisitor subclasses defined against the tree under test.  Two
    instances of the same class with different tags must not see each other."""
    cls = pyc.visitor_classes.get(name)
    if cls is not None:
        return cls
    NV = pyc.c_ast.NodeVisitor

    if name == "Collect":

        class Collect(NV):
            def __init__(self, tag):
                self.tag = tag
                self.log = []

            def visit_ID(self, node):
                self.log.append((self.tag, "ID", node.name))

            def visit_Decl(self, node):
                self.log.append((self.tag, "Decl", node.name))
                self.generic_visit(node)

            def visit_FuncDef(self, node):
                self.log.append((self.tag, "FuncDef", node.decl.name))
                self.generic_visit(node)

            def visit_Typedef(self, node):
                self.log.append((self.tag, "Typedef", node.name))
                self.generic_visit(node)

        cls = Collect
    elif name == "CollectMore":
        # a visitor class *hierarchy*: derived class overrides and adds methods
        Base = get_visitor_class(pyc, "Collect")

        class CollectMore(Base):
            def visit_ID(self, node):
                self.log.append((self.tag, "id-more", node.name.upper()))

            def visit_FuncCall(self, node):
                self.log.append((self.tag, "call"))
                self.generic_visit(node)

            def visit_Typedef(self, node):
                self.log.append((self.tag, "typedef-more", node.name))

            def visit_Constant(self, node):
                self.log.append((self.tag, "const", node.value))

        cls = CollectMore
    elif name == "CountMore":
        Base = get_visitor_class(pyc, "Count")

        class CountMore(Base):
            def visit_Constant(self, node):
                self.log.append((self.tag, "C-more", node.type))

            def visit_ID(self, node):
                self.log.append((self.tag, "I", node.name))

            def visit_Compound(self, node):
                self.log.append((self.tag, "{{", len(node.block_items or [])))
                self.generic_visit(node)

        cls = CountMore
    else:

        class Count(NV):
            def __init__(self, tag):
                self.tag = tag
                self.log = []

            def visit_Constant(self, node):
                self.log.append((self.tag, "C", node.value))

            def visit_Compound(self, node):
                self.log.append((self.tag, "{", len(node.block_items or [])))
                self.generic_visit(node)

            def visit_BinaryOp(self, node):
                self.log.append((self.tag, node.op))
                self.generic_visit(node)

        cls = Count
    pyc.visitor_classes[name] = cls
    return cls


# --------------------------------------------------------------------------
# Running a spec
# --------------------------------------------------------------------------
def _actor_main(world, actor):
    actor.thread_ident = threading.get_ident()
    world.by_thread[actor.thread_ident] = actor
    actor.sem.acquire()
    try:
        runner = OpRunner(world, actor)
        for op in actor.ops:
            try:
                r = runner.run(op)
            except StepCap:
                # cap hit at the op-boundary yield point itself
                r = {"op": op["op"], "out": {"k": "hang", "d": "hang"}, "hang": True}
            actor.results.append(r)
            if world.gc_mode == "op-end":
                world.gc_runs += 1
                gc.collect()
            if r.get("hang"):
                break
        # were ASTs returned earlier modified by later calls?
        for (opi, ast, d0) in actor.returned:
            try:
                d1 = digest(canon.ast_form(ast, world.pyc.Node).text)
            except Exception:
                continue
            if d1 != d0 and opi < len(actor.results):
                actor.results[opi]["mutated_later"] = True
    except BaseException as e:  # harness problem; reported by execute()
        import traceback

        actor.harness_error = "%s: %s\n%s" % (type(e).__name__, e, traceback.format_exc())
    finally:
        sys.settrace(None)
        world.sched.finished(actor)


def strip_full(results, keep_full):
    if keep_full:
        return
    for r in results:
        for key in ("out", "fresh"):
            o = r.get(key)
            if o and o.get("full") is not None and len(o["full"]) > 2000:
                o["head"] = o["full"][:400]
                o["full"] = None
        r["toklog"] = None


class _PoolThread:
    def __init__(self, k):
        self.job = None
        self.go = threading.Semaphore(0)
        self.done = threading.Semaphore(0)
        self.thread = threading.Thread(target=self._loop, name="actor-thread-%d" % k, daemon=True)
        self.thread.start()

    def _loop(self):
        while True:
            self.go.acquire()
            fn, args = self.job
            self.job = None
            try:
                fn(*args)
            finally:
                self.done.release()


_EXECUTES = 0
_POOL = []
os.register_at_fork(after_in_child=_POOL.clear)  # threads do not survive fork


def _pool_threads(n):
    """Persistent actor threads (created once per process with the big stack
    size set by the caller); who runs is still decided by the baton only."""
    while len(_POOL) < n:
        _POOL.append(_PoolThread(len(_POOL)))
    return _POOL[:n]


def execute(pyc, spec, keep_full=True):
    """Execute a run spec against the pristine module set `pyc`."""
    sys.setrecursionlimit(int(spec.get("recursion_limit", 1000)) + int(spec.get("recursion_delta", 0)))
    world = World(pyc, spec)
    threads = _pool_threads(len(world.actors))
    simsync.CURRENT = world
    # everything that exists now (incl. garbage of earlier runs) is parked in the
    # permanent generation: collections during the run look only at objects the
    # run itself allocated - cheap, and independent of the process history
    global _EXECUTES
    _EXECUTES += 1
    gc_was_enabled = gc.isenabled()
    gc.disable()
    if _EXECUTES % 64 == 0:
        gc.collect()
    gc.freeze()
    try:
        for t, a in zip(threads, world.actors):
            t.job = (_actor_main, (world, a))
            t.go.release()
        world.sched.start()
        for t in threads:
            t.done.acquire()
    finally:
        simsync.CURRENT = None
        gc.unfreeze()
        if gc_was_enabled:
            gc.enable()
    for a in world.actors:
        if a.harness_error:
            if a.harness_error.startswith("StepCap"):
                raise StepCap(a.harness_error.split("\n")[0])
            raise HarnessError("actor %d: %s" % (a.idx, a.harness_error))
    leaks = find_leaks(world)
    cross = 0
    for i, ai in enumerate(world.actors):
        for aj in world.actors[i + 1:]:
            cross += len(ai.node_ids & aj.node_ids)
    out = {
        "cross_shared": cross,
        "hung": world.sched.hung,
        "blocked_waits": world.sched.blocked_waits,
        "directed_switches": world.sched.directed_switches,
        "shared_write_lines": len(world.directed_lines or ()),
        "gc_collections": world.gc_runs + world.sched.gc_count,
        "foreign_lexer_calls": world.foreign_lexer_calls,
        "nested_calls": world.nested_calls,
        "preempted_inside": [a.preempted_inside for a in world.actors],
        "sw_steps": [a.sw_steps for a in world.actors],
        "actors": [a.results for a in world.actors],
        "schedule": world.sched.segments,
        "steps": world.sched.total_steps,
        "actor_steps": [a.steps for a in world.actors],
        "switches": world.sched.switches,
        "probes": world.probes,
        "switch_sites": world.switch_sites,
        "fired": world.fired,
        "leaks": leaks,
    }
    for a in world.actors:
        strip_full(a.results, keep_full)
    return out


def find_leaks(world):
    """Leak witnesses: a marker owned by actor i showing up in anything actor
    j (j != i) produced.  Markers were validated by the run generator not to
    occur in j's own inputs."""
    leaks = []
    specs = [a.spec for a in world.actors]
    for j, aj in enumerate(world.actors):
        for opi, r in enumerate(aj.results):
            blobs = []
            for key in ("out", "fresh"):
                o = r.get(key)
                if o and o.get("full"):
                    blobs.append(o["full"])
                if o and o.get("msg"):
                    blobs.append(o["msg"])
            if r.get("gen_text"):
                blobs.append(r["gen_text"])
            for f in r.get("files", []) or []:
                blobs.append(f)
            if r.get("toklog"):
                blobs.append(repr([t[1] for t in r["toklog"]]))
            for i, si in enumerate(specs):
                if i == j:
                    continue
                mk = si.get("markers") or {}
                bad = set((mk.get("not_for") or {}).get(str(j), []))
                for m in mk.get("strings", []):
                    if m in bad:
                        continue
                    for b in blobs:
                        if m in b:
                            leaks.append({"owner": i, "seen_by": j, "op": opi, "marker": m})
                            break
                blk = mk.get("line_block")
                if blk is not None and "lines" not in bad:
                    if blk in (r.get("lines_by_100k") or []):
                        leaks.append(
                            {"owner": i, "seen_by": j, "op": opi, "marker": "line-block %d" % blk}
                        )
    return leaks
