"""C13 - separate parser / generator / visitor / lexer instances never
influence each other, whatever the interleaving of their steps.

2..4 actors with their own scripts and objects run under the baton scheduler
(token or line granularity, a scheduling policy drawn per run, optional crash
or stall of one of them).  Oracle: each actor's results equal those of the same
script executed alone in a pristine process, and no marker owned by one actor
shows up in anything another actor produced.
"""
import re

from . import workload as W
from .c12 import CLASH_PROBES, EXC_KINDS, GEN_SELECT, _first_diff, _first_tok_diff, _pick_weighted, _short, make_abort_fault
from .common import digest
from .engine import same_outcome

POLICIES = [
    ({"kind": "uniform"}, 2),
    ({"kind": "geom", "mean": 1}, 1),
    ({"kind": "geom", "mean": 3}, 2),
    ({"kind": "geom", "mean": 10}, 2),
    ({"kind": "geom", "mean": 50}, 2),
    ({"kind": "geom", "mean": 300}, 1),
    ({"kind": "geom", "mean": 3000}, 1),
    ({"kind": "pct", "d": 1}, 1.5),
    ({"kind": "pct", "d": 2}, 1.5),
    ({"kind": "pct", "d": 3}, 1),
    ({"kind": "rtc"}, 2),
    ({"kind": "starve", "mean": 10}, 1.5),
    ({"kind": "directed", "mean": 100}, 5),
]

_ID_RE = re.compile(r"\b[A-Za-z_]\w*\b")
_LINE_DIR_RE = re.compile(r"^\s*#\s*(?:line\s+)?(\d+)", re.M)


def actor_texts(a):
    out = []
    for op in a["ops"]:
        out.append("\n".join(op.get("items", [])))
        if op.get("filename"):
            out.append(op["filename"])
        if op.get("tag"):
            out.append(op["tag"])
    return out


def gen_run(rng, cfg):
    tier = cfg.get("tier", "quick")
    n = rng.choice([2, 2, 2, 3, 3, 4])
    mode = "line" if rng.random() < cfg.get("line_fraction", 0.4) else "token"
    policy = dict(_pick_weighted(rng, POLICIES))
    if policy["kind"] == "directed":
        mode = "line"  # the policy pre-empts at source lines that write shared state
    faulty = rng.random() < 0.5
    long_inputs = cfg.get("long_corpus") and mode == "token" and rng.random() < cfg.get("long_fraction", 0.0)
    if long_inputs:
        policy = dict(rng.choice([{"kind": "geom", "mean": 300}, {"kind": "geom", "mean": 3000}, {"kind": "pct", "d": 3}, {"kind": "geom", "mean": 50}]))
    size = rng.choice([1, 2, 3, 5] if mode == "line" else [1, 2, 3, 5, 8])
    depth = rng.choice([1, 2, 2, 3])
    sloppy = rng.choice([0.0, 0.02, 0.1])
    actors = []
    shared_prog = None
    fname_theme = rng.random() < 0.15
    kinds_w = [("parse", 5), ("roundtrip", 2), ("gen", 2), ("visit", 1.5), ("lex", 1), ("parse_file", 0.7), ("mixed", 2)]
    # swarm "theme": a third of the runs use one actor kind throughout (two
    # generators / two visitors / two lexers in flight at once)
    theme = _pick_weighted(rng, kinds_w) if rng.random() < 0.35 else None
    deep = rng.random() < 0.04  # every actor gets a deeply nested input (recursion limits are process-global)
    if deep:
        theme, mode = "parse", "token"
    main_gen = (rng.random() < 0.4, rng.choice(["plain", "plain", "Upper", "UpperMore"]))
    if theme in ("gen", "visit") and rng.random() < 0.7:
        mode = "line"  # generator / visitor operations are atomic in token mode
    for i in range(n):
        kind = theme or _pick_weighted(rng, kinds_w)
        nops = rng.choice([1, 1, 2, 2, 3, 4])
        pg = W.ProgGen(rng, actor=i, size=size, depth=depth, sloppy=sloppy, marks=True)
        if fname_theme:
            pg.name_pool_rate, pg.directive_rate = 0.9, 0.35
        ops = []
        for k in range(nops):
            opk = kind if kind != "mixed" else rng.choice(["parse", "roundtrip", "gen", "visit", "lex", "parse_file"])
            x = rng.random()
            if deep and k == 0:
                items = W.deep_program(rng)
            elif long_inputs and opk in ("parse", "lex") and k == 0:
                items = list(rng.choice(cfg["long_corpus"])[1])
            elif opk in ("gen", "visit") and x < 0.75:
                # generator / visitor operations need an input that parses
                if x < 0.35:
                    items = list(rng.choice(W.STATEFUL_SNIPPETS))
                else:
                    pv = W.ProgGen(rng, actor=i, size=rng.choice([1, 2, 3]), depth=depth, sloppy=0.0, marks=True)
                    items = pv.program()
            elif x < 0.6:
                pg.scopes = [{}]
                items = pg.program()
            elif x < 0.72:
                items = list(rng.choice(W.STATEFUL_SNIPPETS))
            elif x < 0.80:
                items = list(rng.choice(CLASH_PROBES))
            elif x < 0.86 and shared_prog is not None:
                items = list(shared_prog)  # the same text in two actors
            elif x < 0.93 and cfg.get("snippets"):
                items = [rng.choice(cfg["snippets"])]
            elif cfg.get("corpus"):
                items = list(rng.choice(cfg["corpus"])[1])
            else:
                items = list(rng.choice(W.FAILING_SNIPPETS))
            if shared_prog is None and rng.random() < 0.3:
                shared_prog = list(items)
            op = {"op": opk, "filename": rng.choice(["act%d.c" % i, "act%d.c" % i, "", "same.c"])}
            if opk == "gen":
                op["select"] = [rng.choice(GEN_SELECT), rng.randrange(8), rng.sample(GEN_SELECT[1:10], 3)]
                if rng.random() < 0.7:
                    op["reduce"], op["gencls"] = main_gen
                else:
                    op["reduce"] = rng.random() < 0.4
                    op["gencls"] = rng.choice(["plain", "plain", "Upper", "UpperMore"])
            elif opk == "parse_file":
                op["use_cpp"] = rng.random() < 0.4
                if rng.random() < 0.5:
                    op["encoding"] = rng.choice(["utf-8", "latin-1"])
                if rng.random() < 0.5:
                    op["filename"] = "d%d/unit.c" % i  # the same base name in every actor's own directory
                if rng.random() < 0.5:
                    op["default_parser"] = True  # parse_file(filename) without parser=
                if faulty and rng.random() < 0.25:
                    k = rng.choice(["cpp-missing", "cpp-fails", "short-read"] if op["use_cpp"] else ["open-error", "decode-error", "short-read"])
                    op["io_fault"] = {"kind": k}
                    if k == "short-read":
                        op["io_fault"]["at"] = rng.randrange(0, max(1, len("\n".join(items))))
            elif opk == "roundtrip":
                op["reduce"] = rng.random() < 0.3
            elif opk == "visit":
                op["visitor"] = rng.choice(["Collect", "CollectMore", "Count", "CountMore"])
                op["tag"] = "tag%d" % i
                op["show"] = rng.random() < 0.4
            elif opk == "lex":
                op["sim"] = True
                op["errmode"] = rng.choice(["record", "record", "raise"])
                if rng.random() < 0.2:
                    op["take"] = rng.randrange(0, 30)
            if faulty and rng.random() < 0.3 and not long_inputs:
                fk = rng.choice(["trunc", "illegal", "bracket", "snippet-fail"])
                if fk == "snippet-fail":
                    items = list(rng.choice(W.FAILING_SNIPPETS))
                    op["mut"] = "failing snippet"
                else:
                    items, op["mut"] = W.mutate_items(rng, items, fk)
            op["items"] = items
            if opk == "parse" and not long_inputs and not deep and rng.random() < 0.15:
                # interleaving on ONE thread: inside this parse (at its k-th token) the
                # program calls other parsers / generators and comes back
                inner = []
                for _ in range(rng.choice([1, 1, 2])):
                    y = rng.random()
                    if y < 0.35:
                        it = list(items)  # the same text: both pass through the same helpers
                    elif y < 0.6:
                        it = list(rng.choice(W.STATEFUL_SNIPPETS))
                    elif y < 0.8:
                        it = list(rng.choice(CLASH_PROBES))
                    else:
                        it = W.ProgGen(rng, actor=i, size=rng.choice([1, 2, 3]), depth=depth, sloppy=sloppy, marks=True).program()
                    inner.append({"op": rng.choice(["parse", "parse", "gen"]), "filename": rng.choice(["inner%d.c" % i, "", op["filename"]]), "items": it})
                ntok = max(2, len(W.cheap_tokens("\n".join(items))))
                op["nest"] = {"at": rng.randrange(1, ntok + 2), "ops": inner}
            ops.append(op)
        a = {"reuse": rng.random() < 0.25, "ops": ops, "kind": kind}
        if kind in ("parse", "mixed", "roundtrip") and not long_inputs and not deep and rng.random() < 0.25:
            # a "recovering" actor: one long-lived parser, a call that fails with state
            # in flight, then further calls on the same parser (solo baseline does the same)
            a["reuse"] = True
            bad = dict(ops[0])
            bad["op"] = "parse"
            if rng.random() < 0.5:
                bad["items"], bad["mut"] = W.mutate_items(rng, list(ops[0]["items"]), rng.choice(["trunc", "trunc", "illegal", "bracket"]))
            else:
                bad["items"], bad["mut"] = list(rng.choice(W.FAILING_SNIPPETS)), "failing snippet"
            a["ops"] = [bad] + ops
        actors.append(a)
    # crash-one: an asynchronous abort inside one actor while the others go on
    if faulty and rng.random() < 0.6:
        victim = rng.randrange(n)
        cands = [op for op in actors[victim]["ops"] if op["op"] in ("parse", "roundtrip", "lex", "parse_file", "gen", "visit")]
        if cands:
            op = rng.choice(cands)
            text = "\n".join(op["items"])
            ntok = max(2, len(W.cheap_tokens(text)))
            fk = rng.choice(["seam-abort", "line-abort"])
            if op["op"] in ("gen", "visit"):
                # a generator / visitor dies in the middle of a visit (the object is thrown away)
                op["fault"] = {"kind": "line-abort", "at": rng.randrange(1, rng.choice([30, 150, 600, 3000])), "exc": rng.choice(EXC_KINDS)}
            else:
                op["fault"] = make_abort_fault(rng, fk, ntok, text)
            op["fault"]["role"] = "crash-one"
    # markers and their validation against the other actors' own inputs
    for i, a in enumerate(actors):
        strings = ["zq%d_" % i, "act%d.c" % i, "inc%d_" % i, "tag%d" % i]
        not_for = {}
        for j, b in enumerate(actors):
            if j == i:
                continue
            texts = actor_texts(b)
            bad = [m for m in strings if any(m in t for t in texts)]
            blocks = set()
            for t in texts:
                for m in _LINE_DIR_RE.finditer(t):
                    try:
                        v = int(m.group(1))
                    except ValueError:
                        continue
                    blocks.add(v // 100000)
                    blocks.add((v + t.count("\n") + 2) // 100000)
            if (i + 1) in blocks:
                bad.append("lines")
            if sum(t.count("\n") for t in texts) > 90000:
                bad.append("lines")
            if bad:
                not_for[str(j)] = bad
        a["markers"] = {"strings": strings, "line_block": i + 1, "not_for": not_for}
    gc_plan = rng.choice([{"mode": "op-end"}, {"mode": "op-end"}, {"mode": "off"}, {"mode": "steps", "every": rng.choice([300, 2000, 10000])}])
    spec = {
        "property": "C13",
        "mode": mode,
        "gc": gc_plan,
        "policy": policy,
        "actors": actors,
        "check_fresh": False,
        "swarm": {"faulty": faulty, "size": size, "depth": depth, "long": bool(long_inputs), "theme": theme},
    }
    return spec


def solo_spec(spec, i):
    a = dict(spec["actors"][i])
    a.pop("markers", None)
    return {
        "property": "C13",
        "recursion_delta": spec.get("recursion_delta", 0),
        "mode": spec["mode"],
        "policy": {"kind": "rtc"},
        "actors": [a],
        "check_fresh": False,
        "probes": False,
        "nest_sequential": True,
        "record_shared_writes": bool(spec.get("schedule_at_shared_write")) and i == 0,
    }


def compared(r, s):
    ro, so = r.get("out"), s.get("out")
    if ro is None or so is None:
        return False
    if ro["k"] in ("abort", "rec") or so["k"] in ("abort", "rec"):
        return False
    return True


def _short_text(t, n=300):
    t = t or ""
    return t if len(t) <= n else t[:n] + "..."


def judge(spec, result, solos):
    viols = []
    for i, a in enumerate(spec["actors"]):
        tog = result["actors"][i]
        alone = solos[i]["actors"][0]
        if len(tog) != len(alone):
            viols.append({"kind": "diverge:outcome", "actor": i, "detail": "different number of completed operations"})
            continue
        for k, (r, s) in enumerate(zip(tog, alone)):
            if r.get("mutated_later") and not s.get("mutated_later"):
                viols.append({"kind": "diverge:ast-mutated-later", "actor": i, "op": k, "detail": "the AST returned by this operation was modified afterwards (not so when the actor runs alone)"})
            if r.get("shared_nodes"):
                viols.append({"kind": "shared-nodes", "actor": i, "op": k, "detail": "%d node objects shared with an AST returned earlier by another instance" % r["shared_nodes"]})
            rn, sn = r.get("nest_out"), s.get("nest_out")
            if rn is not None and sn is not None and not any(x[0] == "rec" for x in rn + sn) and rn != sn:
                j = next((j for j, (x, y) in enumerate(zip(rn, sn)) if x != y), 0)
                viols.append({"kind": "diverge:nested", "actor": i, "op": k, "detail": "a call made on the same thread from inside this parse (inner call %d) gives a different result from the same call made after it" % j, "got": _short_text(rn[j][1]), "want": _short_text(sn[j][1])})
            if not compared(r, s):
                continue
            if not same_outcome(r["out"], s["out"]):
                viols.append({"kind": "diverge:outcome", "actor": i, "op": k, "detail": "result under the schedule differs from the result alone", "got": _short(r["out"]), "want": _short(s["out"]), "first_diff": _first_diff(r["out"], s["out"]), "first_token_diff": _first_tok_diff(r.get("toklog"), s.get("toklog"))})
            elif r.get("tokhash") != s.get("tokhash") and not r.get("fault_fired") and not s.get("fault_fired"):
                viols.append({"kind": "diverge:tokens", "actor": i, "op": k, "detail": "token-level event log under the schedule differs from the log alone", "first_token_diff": _first_tok_diff(r.get("toklog"), s.get("toklog"))})
    for lk in result.get("leaks") or []:
        viols.append({"kind": "leak", "actor": lk["seen_by"], "op": lk["op"], "detail": "marker %r owned by actor %d is visible in a result of actor %d" % (lk["marker"], lk["owner"], lk["seen_by"])})
    if result.get("foreign_lexer_calls"):
        viols.append({"kind": "leak", "detail": "a lexer instance created for one actor's parser was driven %d times by another actor's parse" % result["foreign_lexer_calls"]})
    if result.get("cross_shared"):
        viols.append({"kind": "shared-nodes", "detail": "%d node objects are reachable from ASTs of two different actors" % result["cross_shared"]})
    return viols


def _alpha_names(a):
    s = set()
    for t in actor_texts(a):
        s.update(x for x in _ID_RE.findall(t) if x in W.ALPHABET)
    return s


def nontrivial(spec, result):
    pre = result.get("preempted_inside") or []
    idx = [i for i, c in enumerate(pre) if c > 0]
    if len(idx) < 2:
        return 0
    names = [_alpha_names(spec["actors"][i]) for i in idx]
    for x in range(len(idx)):
        for y in range(x + 1, len(idx)):
            if names[x] & names[y]:
                return 1
    return 0


def summarise(spec, result, info):
    solos = info["solos"]
    ncmp = 0
    outcomes = {}
    fired = dict(result.get("fired") or {})
    for i, a in enumerate(spec["actors"]):
        for op, r, s in zip(a["ops"], result["actors"][i], solos[i]["actors"][0]):
            if compared(r, s):
                ncmp += 1
            k = (r.get("out") or {}).get("k", "?")
            outcomes["outcome:" + k] = outcomes.get("outcome:" + k, 0) + 1
            outcomes["op:" + op["op"]] = outcomes.get("op:" + op["op"], 0) + 1
            m = op.get("mut")
            if m and m != "none":
                fk = "input:" + m.split()[0]
                fired[fk] = fired.get(fk, 0) + 1
            if r.get("fault_fired") and (op.get("fault") or {}).get("role") == "crash-one":
                fired["crash-one"] = fired.get("crash-one", 0) + 1
                if op["op"] in ("gen", "visit"):
                    fired["crash-one:mid-visit"] = fired.get("crash-one:mid-visit", 0) + 1
            if op.get("nest") and r.get("nest_out") is not None and not r.get("nest_sequential"):
                fired["same-thread-nested-call"] = fired.get("same-thread-nested-call", 0) + 1
    pr = dict(result.get("probes") or {})
    pr.update(outcomes)
    pol = spec["policy"]["kind"]
    if pol == "starve":
        fired["stall"] = fired.get("stall", 0) + 1
    pr["policy:" + pol + (":%s" % spec["policy"].get("mean", spec["policy"].get("d", "")) if pol in ("geom", "pct") else "")] = 1
    pr["mode:" + spec["mode"]] = 1
    pr["actors:%d" % len(spec["actors"])] = 1
    if any(a.get("reuse") for a in spec["actors"]):
        pr["actor_reuses_own_instances"] = 1
    if info.get("rec_mismatches"):
        pr["recursion_mismatch_rechecked"] = info["rec_mismatches"]
        pr["recursion_mismatch_dismissed_as_not_robust"] = info.get("rec_mismatches_not_robust", 0)
    if result.get("directed_switches"):
        pr["directed_switches_at_shared_write_lines"] = result["directed_switches"]
    if result.get("blocked_waits"):
        pr["waits_on_simulated_locks"] = result["blocked_waits"]
    sites = result.get("switch_sites") or {}
    if any("visit_Compound" in s for s in sites):
        pr["line_switch_inside_visit_Compound"] = 1
    if any(s.startswith("visit->") or "->visit" in s for s in sites):
        pr["line_switch_inside_NodeVisitor_visit"] = 1
    return {
        "n_ops": sum(len(a["ops"]) for a in spec["actors"]),
        "n_compared": ncmp,
        "nontrivial_hits": nontrivial(spec, result),
        "probes": pr,
        "fired": fired,
        "steps": result["steps"],
        "switches": result["switches"],
        "lines": sum(r.get("nline", 0) for rs in result["actors"] for r in rs),
        "tokens": sum(r.get("ntok", 0) for rs in result["actors"] for r in rs),
        "case_digest": digest([spec["mode"], [[(o["op"], o.get("items"), o.get("fault")) for o in a["ops"]] for a in spec["actors"]], result["schedule"]]),
        "schedule_digest": digest(result["schedule"]),
        "switch_sites": sites,
        "faulty": bool(spec.get("swarm", {}).get("faulty")),
    }


def sample_view(spec, result):
    acts = []
    for i, a in enumerate(spec["actors"]):
        ops = []
        for op, r in zip(a["ops"], result["actors"][i]):
            text = "\n".join(op["items"])
            o = r.get("out") or {}
            ops.append(
                {
                    "op": op["op"],
                    "filename": op.get("filename"),
                    "text": text if len(text) <= 300 else text[:300] + "...[%d chars]" % len(text),
                    "input_fault": op.get("mut"),
                    "abort_fault": op.get("fault"),
                    "outcome": o.get("k"),
                    "outcome_text": (o.get("full") or o.get("head") or "")[:120],
                    "tokens": r.get("ntok"),
                    "line_events": r.get("nline"),
                }
            )
        acts.append({"actor": i, "reuse": a.get("reuse"), "ops": ops})
    sched = result["schedule"]
    return {
        "mode": spec["mode"],
        "policy": spec["policy"],
        "actors": acts,
        "schedule_segments": sched if len(sched) <= 60 else sched[:60] + [["...", len(sched) - 60]],
        "steps": result["steps"],
        "switches": result["switches"],
    }


def rec_mismatches(spec, result, solos):
    out = []
    for i in range(len(spec["actors"])):
        for k, (r, s) in enumerate(zip(result["actors"][i], solos[i]["actors"][0])):
            if not r.get("out") or not s.get("out"):
                continue
            rk, sk = r["out"]["k"], s["out"]["k"]
            if rk in ("abort", "hang") or sk in ("abort", "hang"):
                continue
            if (rk == "rec") != (sk == "rec"):
                out.append((i, k, "under the schedule" if rk == "rec" else "alone"))
    return out
