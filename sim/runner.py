"""Worker-side logic: generate a run from (seed, index), execute it in a
pristine child, fetch baselines (each in its own pristine child), judge.

The worker process (a "zygote") imports pycparser from the tree under test but
never executes any of it, so every fork starts from import-time module state.
"""
import copy
import faulthandler
import os
import sys
import threading
import time
import traceback

from . import c12, c13, engine, loader, proc, sweep
from .common import ENGINE_VERSION, H, HarnessError, digest, rng_for

_STATE = {}


def init_worker(repo, cfg, isolation="reimport"):
    """Called once per worker process."""
    loader.install(repo)
    threading.stack_size(int(os.environ.get("VERIF_STACK_MB", "64")) * 1024 * 1024)
    _STATE["repo"] = repo
    _STATE["cfg"] = cfg
    _STATE["isolation"] = isolation
    _STATE["cache"] = {}
    _STATE["cache_hits"] = 0
    _STATE["cache_misses"] = 0
    if isolation == "fork":
        # import (never call into) the package once in the zygote; every forked
        # child uses this never-executed module set directly (re-executing the
        # module bodies in each child costs ~45 ms of copy-on-write faults here)
        _STATE["zygote_pyc"] = loader.fresh()


def _exec_child(arg):
    spec, keep_full = arg
    pyc = _STATE.get("zygote_pyc") or loader.fresh()
    return engine.execute(pyc, spec, keep_full=keep_full)


def run_spec(spec, keep_full=True, timeout=None):
    """Execute a spec on a pristine module set: in-process on freshly executed
    modules ('reimport'), or additionally in a freshly forked process ('fork')."""
    timeout = timeout or _STATE["cfg"].get("run_timeout", 120)
    spec.setdefault("max_steps", 5_000_000 if _STATE["cfg"].get("tier") != "thorough" else 50_000_000)
    spec.setdefault("deadline_s", float(timeout))
    if _STATE["isolation"] == "fork":
        return proc.call_in_child(_exec_child, (spec, keep_full), timeout=timeout + 30, what="run")
    try:
        return engine.execute(loader.fresh(), spec, keep_full=keep_full)
    except engine.StepCap as e:
        raise HarnessError(str(e))
    finally:
        sys.settrace(None)
        sys.setrecursionlimit(1000)


def set_isolation(mode):
    _STATE["isolation"] = mode
    _STATE["cache"] = {}
    if mode != "fork":
        # this process is going to execute pycparser itself: no longer a zygote
        _STATE.pop("zygote_pyc", None)


def baseline(key, spec):
    c = _STATE["cache"]
    if key in c:
        _STATE["cache_hits"] += 1
        return c[key]
    _STATE["cache_misses"] += 1
    res = run_spec(spec, keep_full=True)
    if len(c) > 4000:
        c.clear()
    c[key] = res
    return res


# --------------------------------------------------------------------------
def evaluate(spec):
    """Execute `spec` and judge it.  Returns (violations, result, info).
    Deterministic function of (spec, tree)."""
    prop = spec["property"]
    if prop == "C12":
        for op in spec["actors"][0]["ops"]:
            f = op.get("fault")
            if f and f.get("at_fraction") is not None:
                # dense sweep: abort at the (i/Q)-th part of this operation's own line events
                qi, q = f.pop("at_fraction")
                clean = {k: v for k, v in op.items() if k not in ("fault", "mut")}
                mspec = {"property": "C12", "mode": "line", "check_fresh": False, "policy": {"kind": "rtc"},
                         "actors": [{"reuse": False, "ops": [clean]}], "probes": False}
                m = baseline("nline:" + c12.op_key(op), mspec)
                n = max(1, int(m["actors"][0][0].get("nline") or 1))
                f["at"] = 1 + (int(qi) * n) // int(q)
        result = run_spec(spec)
        ops = spec["actors"][0]["ops"]
        bl = []
        for op, r in zip(ops, result["actors"][0]):
            if not r.get("out") or r["out"]["k"] in ("abort", "hang"):
                bl.append(None)
                continue
            bs = c12.baseline_spec(op)
            key = c12.op_key(op)
            if spec.get("recursion_delta"):
                bs["recursion_delta"] = spec["recursion_delta"]
                key += ":rd%d" % spec["recursion_delta"]
            b = baseline(key, bs)
            bl.append(b["actors"][0][0])
        viols = c12.judge(spec, result, bl)
        info = {"baselines": bl}
        if not spec.get("recursion_delta"):
            mm = c12.rec_mismatches(spec, result, bl)
            extra = _recursion_recheck(spec, mm, "history:recursion")
            viols += extra
            info["rec_mismatches"] = len(mm)
            info["rec_mismatches_not_robust"] = len(mm) - len(extra)
        return viols, result, info
    elif prop == "C13":
        solos = []
        for i, a in enumerate(spec["actors"]):
            sspec = c13.solo_spec(spec, i)
            solos.append(baseline(digest(sspec), sspec))
        if spec.get("schedule") is None and not spec.get("est_steps"):
            spec["est_steps"] = sum(s["steps"] for s in solos)
        if spec.get("schedule_from_end") is not None:
            # sweep case "pre-empt actor 0 k steps before its end"
            n0 = solos[0]["steps"]
            k = int(spec.pop("schedule_from_end"))
            spec["schedule"] = [[0, max(1, n0 - k)], [1, 1 << 40], [0, 1 << 40]]
        if spec.get("schedule_at_shared_write") is not None:
            # directed sweep case: pre-empt actor 0 around the j-th time it executes a
            # line that writes state visible to other instances (none on a tree that
            # keeps everything per instance: the case then degenerates to run-to-completion)
            hj, delta = spec.pop("schedule_at_shared_write")
            hits = (solos[0].get("sw_steps") or [[]])[0]
            if hits:
                spec["schedule"] = [[0, max(1, hits[int(hj) % len(hits)] + int(delta))], [1, 1 << 40], [0, 1 << 40]]
            else:
                spec["schedule"] = [[0, 1 << 40], [1, 1 << 40]]
        if spec.get("schedule_at_fraction") is not None:
            # dense sweep case: pre-empt actor 0 at the (i/Q)-th part of its own steps
            qi, q = spec.pop("schedule_at_fraction")
            n0 = solos[0]["steps"]
            spec["schedule"] = [[0, 1 + (int(qi) * n0) // int(q)], [1, 1 << 40], [0, 1 << 40]]
        # together the actors take exactly the steps they take alone; far more = hang
        spec["max_steps"] = 20 * sum(s["steps"] for s in solos) + 200_000
        result = run_spec(spec)
        viols = c13.judge(spec, result, solos)
        info = {"solos": solos}
        if not spec.get("recursion_delta"):
            mm = c13.rec_mismatches(spec, result, solos)
            extra = _recursion_recheck(spec, mm, "diverge:recursion")
            viols += extra
            info["rec_mismatches"] = len(mm)
            info["rec_mismatches_not_robust"] = len(mm) - len(extra)
        return viols, result, info
    raise HarnessError("unknown property %r" % prop)


REC_DELTAS = (48, -48)


def _recursion_recheck(spec, mism, kind):
    """RecursionError-vs-completed differences are normally not compared: where
    exactly the limit bites depends on a handful of harness frames that sit on
    top of the parser's stack at yield points.  A difference is believed only if
    it is *robust*: the same operation is 'rec' on the same side when the whole
    comparison is repeated with every recursion limit shifted by +48 and by -48
    frames (a difference caused by a few harness frames cannot survive both)."""
    if not mism:
        return []
    robust = set(mism)
    for delta in REC_DELTAS:
        s2 = copy.deepcopy(spec)
        s2["recursion_delta"] = delta
        s2.pop("max_steps", None)
        if s2.get("schedule") is None:
            s2.pop("est_steps", None)
        _, result2, info2 = evaluate(s2)
        mod = c12 if spec["property"] == "C12" else c13
        ref = info2["baselines"] if spec["property"] == "C12" else info2["solos"]
        robust &= set(mod.rec_mismatches(s2, result2, ref))
        if not robust:
            return []
    out = []
    for (actor, op, side) in sorted(robust):
        out.append({"kind": kind, "actor": actor, "op": op, "detail": "RecursionError on one side only (%s), stable when all recursion limits are shifted by +48 and -48 frames" % side})
    return out


def one_run(task):
    """task = (prop, seed, index).  Returns a summary dict."""
    prop, seed, index = task
    t0 = time.time()
    cfg = _STATE["cfg"]
    # watchdog: a hang of the machinery kills this worker -> HARNESS-ERROR in the parent
    # (not armed in fork mode: a forked child must not inherit an armed watchdog;
    # there the parent-side timeout of proc.call_in_child does the job)
    arm = _STATE["isolation"] != "fork"
    if arm:
        faulthandler.dump_traceback_later(cfg.get("run_timeout", 120) * 3, exit=True)
    try:
        return _one_run(prop, seed, index, cfg, t0)
    finally:
        if arm:
            faulthandler.cancel_dump_traceback_later()


def _one_run(prop, seed, index, cfg, t0):
    try:
        rng = rng_for("run", prop, seed, index)
        mod = c12 if prop == "C12" else c13
        n_sweep = min(int(cfg.get("n_sweep", {}).get(prop, 0)), sweep.n_cases(prop))
        sw = sweep.sw_case_indices() if prop == "C13" and n_sweep else []
        if sw and index % 4 == 2 and index // 4 < len(sw):
            # the shared-write-directed cases first: both tiers run all of them
            case = sw[(H("sw-start", seed) + index // 4) % len(sw)]
            spec = sweep.spec_for(prop, case)
            spec["sweep_case"] = case
        elif index < 2 * n_sweep and index % 2 == 0:
            # systematic part: enumerated fault / pre-emption points (sim/sweep.py);
            # even run indices until the slice is used up, so that the seeded random
            # search (odd indices) starts at once
            start, stride, n = sweep.order(prop, seed)
            case = (start + (index // 2) * stride) % n
            spec = sweep.spec_for(prop, case)
            spec["sweep_case"] = case
        elif cfg.get("ext_sweep") and cfg.get("ext_sweep_from") is not None and index >= cfg["ext_sweep_from"] and index - cfg["ext_sweep_from"] < len(sweep.ext_cases(prop)):
            # thorough tier: dense line-granular sweep after a first stretch of random runs
            case = index - cfg["ext_sweep_from"]
            spec = sweep.ext_spec(prop, case)
            spec["sweep_case"] = "ext-%d" % case
        else:
            spec = mod.gen_run(rng, cfg)
        spec["seed"] = seed
        spec["run_index"] = index
        spec["sched_seed"] = rng.getrandbits(48)
        spec["engine"] = ENGINE_VERSION
        spec_digest = digest(spec_core(spec))  # before evaluate() resolves positions that depend on measured counts
        viols, result, info = evaluate(spec)
        summ = mod.summarise(spec, result, info)
        summ.update(
            {
                "sweep": "sweep_case" in spec,
                "isolation": _STATE["isolation"],
                "index": index,
                "ok": not viols,
                "violations": viols,
                "wall": time.time() - t0,
                "digest": run_digest(spec, result, viols, spec_digest),
            }
        )
        if viols:
            summ["spec"] = finalise_spec(spec, result)
        elif index < 2 * cfg.get("n_samples", 3):
            summ["sample"] = mod.sample_view(spec, result)
        return summ
    except HarnessError as e:
        return {"index": index, "harness_error": str(e), "wall": time.time() - t0}
    except Exception as e:
        return {
            "index": index,
            "harness_error": "%s: %s\n%s" % (type(e).__name__, e, traceback.format_exc()),
            "wall": time.time() - t0,
        }


def run_chunk(task):
    """task = (prop, seed, first_index, count) -> list of summaries"""
    prop, seed, first, count = task
    return [one_run((prop, seed, i)) for i in range(first, first + count)]


def finalise_spec(spec, result):
    """The replayable form of a run: the spec plus the recorded schedule."""
    s = dict(spec)
    s["schedule"] = result["schedule"]
    return s


def run_digest(spec, result, viols=(), spec_digest=None):
    """Digest of the complete event log of a run (determinism self-test)."""
    acts = []
    for rs in result["actors"]:
        acts.append(
            [
                (
                    r.get("out", {}).get("k"),
                    r.get("out", {}).get("d"),
                    r.get("fresh", {}).get("d") if r.get("fresh") else None,
                    r.get("tokhash"),
                    r.get("ntok"),
                    r.get("fault_fired"),
                )
                for r in rs
            ]
        )
    d = {
        "spec": spec_digest or digest(spec_core(spec)),
        "acts": acts,
        "leaks": result["leaks"],
        "verdict": sorted({v["kind"] for v in viols}),
    }
    # Line-event *counts* are left out, and so are the step-level schedule data of
    # line-mode runs: CPython's tracing emits one `line` event more or less for a few
    # constructs (seen: a conditional expression whose taken branch is a property
    # call) depending on how warm the code object is, i.e. on whether the run
    # executes in a long-lived worker or in a freshly forked child.  What is
    # computed - outcomes, token logs, leaks, verdict - must still be identical.
    if spec.get("mode") != "line":
        d["schedule"] = result["schedule"]
        d["steps"] = result["steps"]
        d["switches"] = result["switches"]
    return digest(d)


def spec_core(spec):
    return {k: spec.get(k) for k in ("property", "mode", "policy", "actors", "sched_seed", "gc")}
