"""Workload: seeded C program generator, repository corpus, input mutations.

Pure Python; never imports pycparser (workers must stay pristine).  Programs
are lists of top-level *items* (strings) so that the minimiser can drop items.
Programs do not have to be valid C - the oracle is differential - they have to
reach state: typedef/identifier scopes, pending pragma tokens, #line re-basing,
speculative parses, generator indentation, AST rewrites.
"""
import ast as pyast
import os
import re

ALPHABET = ["T", "U", "V", "x", "y", "f"]
BASE_TYPES = ["int", "char", "unsigned long", "double", "short", "long long", "_Bool", "float"]
BINOPS = ["+", "-", "*", "/", "%", "<<", ">>", "<", ">", "<=", ">=", "==", "!=", "&", "|", "^", "&&", "||"]
ASSIGNOPS = ["=", "+=", "-=", "*=", "|=", "<<="]


class ProgGen:
    def __init__(self, rng, actor=None, size=6, depth=3, sloppy=0.1, marks=True):
        self.rng = rng
        self.actor = actor  # None or int (markers are derived from it)
        self.size = size
        self.depth = depth
        self.sloppy = sloppy  # probability of ignoring the scope model
        self.marks = marks and actor is not None
        self.scopes = [{}]
        self.tagno = 0
        self.own = "zq%d_" % actor if actor is not None else "zz_"
        self.linebase = (actor + 1) * 100000 if actor is not None else 500
        self.incno = 0
        self.labelno = 0
        self.name_pool_rate = 0.3   # share of #line file names taken from a small pool of spellings
        self.directive_rate = 0.10  # share of top-level items that are line directives

    # -- scope model ---------------------------------------------------------
    def kind(self, name):
        for s in reversed(self.scopes):
            if name in s:
                return s[name]
        return None

    def declare(self, name, kind):
        self.scopes[-1][name] = kind

    def names_of(self, kind):
        seen = {}
        for s in self.scopes:
            for k, v in s.items():
                seen[k] = v
        return [k for k, v in seen.items() if v == kind]

    def pick_name(self):
        r = self.rng
        if self.marks and r.random() < 0.15:
            return self.own + r.choice(ALPHABET)
        return r.choice(ALPHABET)

    def fresh_name(self, kind):
        """A name whose declaration as `kind` in the current scope does not
        clash (most of the time - sloppy on purpose)."""
        for _ in range(6):
            n = self.pick_name()
            k = self.scopes[-1].get(n)
            if k is None or k == kind or self.rng.random() < self.sloppy:
                return n
        return n

    def a_type(self):
        """A type specifier string."""
        r = self.rng
        ts = self.names_of("type")
        if ts and r.random() < 0.6:
            return r.choice(ts)
        if r.random() < self.sloppy:
            return r.choice(ALPHABET)
        x = r.random()
        if x < 0.12:
            return "struct S%d" % r.randrange(3)
        if x < 0.18:
            return "enum E%d" % r.randrange(3)
        if x < 0.22:
            return "_Atomic(%s)" % r.choice(BASE_TYPES[:4])
        return r.choice(BASE_TYPES)

    def an_obj(self):
        r = self.rng
        os_ = self.names_of("obj")
        if os_ and r.random() > self.sloppy:
            return r.choice(os_)
        return r.choice(ALPHABET)

    # -- expressions ---------------------------------------------------------
    def const(self):
        r = self.rng
        return r.choice(
            ["0", "1", "42", "0x1F", "017", "3u", "7L", "1.5", "2e3f", ".5", "'a'", "'\\n'",
             "L'x'", '"s"', '"a" "b"', 'L"w"', "0b101", "10ULL", "0x1.8p3", 'u8"k"']
        )

    def expr(self, d=None):
        r = self.rng
        if d is None:
            d = self.depth
        if d <= 0 or r.random() < 0.25:
            return self.an_obj() if r.random() < 0.6 else self.const()
        x = r.random()
        e = self.expr
        if x < 0.30:
            return "%s %s %s" % (e(d - 1), r.choice(BINOPS), e(d - 1))
        if x < 0.38:
            return "(%s)%s" % (self.type_name(), e(d - 1))
        if x < 0.44:
            return "(%s)(%s)" % (r.choice(ALPHABET), e(d - 1))  # cast or call
        if x < 0.50:
            return "sizeof(%s)" % (self.type_name() if r.random() < 0.6 else e(d - 1))
        if x < 0.54:
            return "sizeof %s" % self.an_obj()
        if x < 0.60:
            return "%s(%s)" % (self.an_obj(), ", ".join(e(d - 1) for _ in range(r.randrange(3))))
        if x < 0.66:
            return "%s[%s]" % (self.an_obj(), e(d - 1))
        if x < 0.70:
            return "%s%s%s" % (self.an_obj(), r.choice([".", "->"]), r.choice(ALPHABET))
        if x < 0.76:
            return "%s%s" % (r.choice(["-", "!", "~", "*", "&", "++", "--"]), e(d - 1))
        if x < 0.79:
            return "%s%s" % (self.an_obj(), r.choice(["++", "--"]))
        if x < 0.84:
            return "%s ? %s : %s" % (e(d - 1), e(d - 1), e(d - 1))
        if x < 0.88:
            return "(%s){%s}" % (self.type_name(), ", ".join(e(d - 1) for _ in range(r.randrange(1, 3))))
        if x < 0.91:
            return "(%s, %s)" % (e(d - 1), e(d - 1))
        if x < 0.94:
            return "%s %s %s" % (self.an_obj(), r.choice(ASSIGNOPS), e(d - 1))
        if x < 0.96:
            return "_Alignof(%s)" % self.type_name()
        if x < 0.98:
            return "offsetof(struct S%d, %s)" % (r.randrange(3), r.choice(ALPHABET))
        return "(%s)" % e(d - 1)

    def type_name(self):
        r = self.rng
        t = self.a_type()
        x = r.random()
        if x < 0.55:
            return t
        if x < 0.75:
            return t + " *"
        if x < 0.85:
            return "const " + t + " * const"
        if x < 0.92:
            return t + " (*)(%s)" % r.choice(["void", "int", t])
        return t + " [%s]" % r.choice(["", "3", "*"])

    # -- declarations ----------------------------------------------------------
    def declarator(self, name):
        r = self.rng
        x = r.random()
        if x < 0.5:
            return name
        if x < 0.65:
            return "*" + name
        if x < 0.72:
            return "* const " + name
        if x < 0.80:
            return "%s[%s]" % (name, r.choice(["", "3", "2][2", self.const()]))
        if x < 0.87:
            return "(*%s)(%s)" % (name, self.params(named=r.random() < 0.5))
        if x < 0.93:
            return "(%s)" % name
        return "(*%s)[3]" % name

    def params(self, named=True):
        r = self.rng
        if r.random() < 0.15:
            return "void"
        ps = []
        for _ in range(r.randrange(1, 4)):
            t = self.a_type()
            x = r.random()
            if not named or x < 0.25:
                ps.append(t + r.choice(["", " *", " (*)(int)", " []"]))
            elif x < 0.4:
                ps.append("%s (%s)" % (t, r.choice(ALPHABET)))  # T: abstract fn, else name
            else:
                ps.append("%s %s" % (t, self.declarator(r.choice(ALPHABET))))
        if r.random() < 0.1:
            ps.append("...")
        return ", ".join(ps)

    def initializer(self):
        r = self.rng
        x = r.random()
        if x < 0.6:
            return self.expr(1)
        if x < 0.8:
            return "{%s}" % ", ".join(self.expr(1) for _ in range(r.randrange(1, 4)))
        if x < 0.9:
            return "{.%s = %s, [%s] = %s}" % (r.choice(ALPHABET), self.expr(1), self.const(), self.expr(0))
        return "{{1, 2}, {%s}}" % self.expr(0)

    def decl(self):
        """An object / typedef declaration; updates the scope model."""
        r = self.rng
        x = r.random()
        name = self.fresh_name("type" if x < 0.40 else "obj")
        if x < 0.30:
            t = self.a_type()
            s = "typedef %s %s;" % (t, self.declarator(name))
            self.declare(name, "type")
            return s
        if x < 0.36:
            s = "typedef %s %s;" % (self.struct_spec(), name)
            self.declare(name, "type")
            return s
        if x < 0.40:
            t = self.a_type()
            n2 = self.fresh_name("type")
            self.declare(name, "type")
            self.declare(n2, "type")
            return "typedef %s %s, *%s;" % (t, name, n2)
        t = self.a_type()
        quals = r.choice(["", "", "", "static ", "const ", "extern ", "volatile ", "register ",
                          "_Alignas(8) ", "_Thread_local static ", "static const "])
        if x < 0.75:
            s = "%s%s %s" % (quals, t, self.declarator(name))
            self.declare(name, "obj")
            if r.random() < 0.4:
                s += " = " + self.initializer()
            if r.random() < 0.2:
                n2 = self.fresh_name("obj")
                s += ", " + self.declarator(n2)
                self.declare(n2, "obj")
            return s + ";"
        if x < 0.85:
            return self.struct_spec() + r.choice([";", " %s;" % name])
        if x < 0.93:
            return self.enum_spec() + ";"
        if x < 0.96:
            return "_Static_assert(%s, \"m\");" % self.expr(1)
        self.declare(name, "obj")
        return "%s %s(%s);" % (t, name, self.params())

    def struct_spec(self):
        r = self.rng
        kw = r.choice(["struct", "struct", "union"])
        tag = "" if r.random() < 0.3 else " S%d" % r.randrange(3)
        if r.random() < 0.15:
            return kw + (tag or " S0")
        members = []
        for _ in range(r.randrange(0, 4)):
            x = r.random()
            m = r.choice(ALPHABET)
            if x < 0.6:
                members.append("%s %s;" % (self.a_type(), self.declarator(m)))
            elif x < 0.72:
                members.append("unsigned %s : %s;" % (m, r.choice(["1", "3", "sizeof(int)"])))
            elif x < 0.8:
                members.append("struct { int a; %s b; };" % self.a_type())
            elif x < 0.88:
                members.append("%s %s;" % (self.enum_spec(), m))
            elif x < 0.94:
                members.append("#pragma pack(%d)" % r.randrange(1, 9))
            else:
                members.append("_Static_assert(1, \"in struct\");")
        return "%s%s {\n  %s\n}" % (kw, tag, "\n  ".join(members))

    def enum_spec(self):
        r = self.rng
        tag = "" if r.random() < 0.4 else " E%d" % r.randrange(3)
        es = []
        for _ in range(r.randrange(1, 4)):
            n = self.fresh_name("obj")
            self.declare(n, "obj")
            es.append(n + ("" if r.random() < 0.5 else " = %s" % self.expr(1)))
        return "enum%s { %s%s }" % (tag, ", ".join(es), r.choice(["", ","]))

    # -- statements -------------------------------------------------------------
    def pragma(self):
        r = self.rng
        x = r.random()
        if x < 0.6:
            return "#pragma %s" % r.choice(["once", "omp parallel for", "pack(push, 1)", "GCC diagnostic push", "", "{weird: 2}"])
        if x < 0.85:
            return "_Pragma(\"%s\")" % r.choice(["omp for", "pack(1)", ""])
        return "#  pragma   spaced  out"

    def line_directive(self):
        r = self.rng
        self.incno += 1
        fn = "inc%s_%d.h" % (self.actor if self.actor is not None else "x", self.incno)
        if r.random() < self.name_pool_rate:
            # a small pool of names in several spellings (case, slash direction, ./)
            base = "inc%s_0.h" % (self.actor if self.actor is not None else "x")
            fn = r.choice([base, base.upper(), "dir/" + base, "dir\\\\" + base, "Dir/" + base.capitalize(), "./" + base])
        ln = self.linebase + r.randrange(1000, 90000)
        x = r.random()
        if r.random() < 0.2:
            # a marker text that other programs use too (no file name, small number)
            return r.choice(["#line 100", "# 9", "#line 42", "# 100"])
        if x < 0.4:
            return '#line %d "%s"' % (ln, fn)
        if x < 0.7:
            return '# %d "%s" %s' % (ln, fn, r.choice(["", "1", "2", "3 4", "1 3 4"]))
        if x < 0.85:
            return "#line %d" % ln
        return "# %d" % ln

    def stmt(self, d, in_block=False):
        r = self.rng
        x = r.random()
        ind = "  " * (self.depth - d + 1)
        if not in_block and 0.30 <= x < 0.45 and r.random() > self.sloppy:
            x = 0.5  # a declaration is not a statement: wrap it in a block
        if d <= 0 or x < 0.30:
            y = r.random()
            if y < 0.5:
                return ind + self.expr(2) + ";"
            if y < 0.62:
                return ind + "return %s;" % self.expr(1)
            if y < 0.68:
                return ind + r.choice(["break;", "continue;", ";", "return;"])
            if y < 0.74:
                return ind + "goto L%d;" % r.randrange(3)
            if y < 0.86:
                return ind + "%s * %s;" % (r.choice(ALPHABET), r.choice(ALPHABET))  # decl or expr
            if y < 0.93:
                return ind + "%s (%s);" % (r.choice(ALPHABET), r.choice(ALPHABET))  # decl or call
            if in_block or r.random() < self.sloppy:
                return self.pragma()
            return self.pragma() + "\n" + ind + ";"
        if x < 0.45:
            return ind + self.decl()
        if x < 0.55:
            return self.block(d - 1, ind)
        if x < 0.63:
            s = ind + "if (%s)\n%s" % (self.expr(2), self.stmt(d - 1))
            if r.random() < 0.5:
                s += "\n" + ind + "else\n" + self.stmt(d - 1)
            return s
        if x < 0.70:
            self.scopes.append({})
            init = r.choice(["", self.expr(1), "int %s = 0" % self.pick_name(), "%s %s" % (self.a_type(), r.choice(ALPHABET))])
            if r.random() < 0.3:
                # several declarators in the init clause (a DeclList with a tail)
                init = "int " + ", ".join("%s%s = %s" % (r.choice(["", "*"]), nm, self.expr(2)) for nm in r.sample(ALPHABET, r.choice([2, 2, 3])))
            s = ind + "for (%s; %s; %s)\n%s" % (init, r.choice(["", self.expr(1)]), r.choice(["", self.expr(1)]), self.stmt(d - 1))
            self.scopes.pop()
            return s
        if x < 0.75:
            return ind + "while (%s)\n%s" % (self.expr(1), self.stmt(d - 1))
        if x < 0.79:
            return ind + "do\n%s\n%swhile (%s);" % (self.stmt(d - 1), ind, self.expr(1))
        if x < 0.88:
            return self.switch(d - 1, ind)
        if x < 0.93:
            self.labelno += 1
            return ind + "L%d:\n%s" % (r.randrange(3), self.stmt(d - 1))
        if x < 0.97:
            return self.pragma() + "\n" + self.stmt(d - 1)
        return ind + "(%s) = ({ %s; %s; });" % (self.an_obj(), self.expr(1), self.expr(1))

    def block(self, d, ind=""):
        r = self.rng
        self.scopes.append({})
        n = r.randrange(0, 4)
        body = [self.stmt(d, True) for _ in range(n)]
        self.scopes.pop()
        if not body:
            return ind + "{}" if r.random() < 0.5 else ind + "{\n" + ind + "}"
        return ind + "{\n" + "\n".join(body) + "\n" + ind + "}"

    def switch(self, d, ind):
        r = self.rng
        self.scopes.append({})
        parts = []
        for _ in range(r.randrange(1, 5)):
            x = r.random()
            if x < 0.5:
                parts.append(ind + " case %s:" % self.const())
            elif x < 0.6:
                parts.append(ind + " default:")
            elif x < 0.7:
                parts.append(ind + " case 1: case 2: default:")
            if r.random() < 0.8:
                parts.append(self.stmt(d, True))
        self.scopes.pop()
        return ind + "switch (%s) {\n%s\n%s}" % (self.expr(1), "\n".join(parts), ind)

    def funcdef(self):
        r = self.rng
        name = self.fresh_name("obj")
        t = r.choice(["int", "void", "static int", "inline int", "_Noreturn void", self.a_type(), ""])
        self.declare(name, "obj")
        self.scopes.append({})
        if r.random() < 0.15:
            # K&R
            t = t or "int"
            ps = [r.choice(ALPHABET) for _ in range(r.randrange(1, 3))]
            ps = list(dict.fromkeys(ps))
            for p in ps:
                self.declare(p, "obj")
            head = "%s %s(%s)\n%s" % (t, name, ", ".join(ps), "\n".join("  %s %s;" % (r.choice(BASE_TYPES), p) for p in ps))
        else:
            ptxt = self.params()
            for m in re.finditer(r"\b([A-Za-z_]\w*)\s*(?:,|$|\[|\))", ptxt):
                if m.group(1) in ALPHABET and self.kind(m.group(1)) != "type":
                    self.declare(m.group(1), "obj")
            head = "%s %s(%s)" % (t, name, ptxt)
        n = r.randrange(0, self.size)
        body = [self.stmt(self.depth, True) for _ in range(n)]
        self.scopes.pop()
        return head.strip() + "\n{\n" + "\n".join(body) + "\n}"

    def item(self):
        r = self.rng
        x = r.random()
        if x < 0.40:
            return self.decl()
        if x < 0.75:
            return self.funcdef()
        if x < 0.95 - self.directive_rate:
            return self.pragma() if x >= 0.75 else self.funcdef()
        if x < 0.95:
            return self.line_directive()
        return r.choice([";", "_Static_assert(1, \"ok\");", "int;", "struct S1;", "#pragma"])

    def program(self, n=None):
        r = self.rng
        if n is None:
            n = r.randrange(1, self.size + 2)
        return [self.item() for _ in range(n)]


# A few hand-written items that are known to reach delicate state.
STATEFUL_SNIPPETS = [
    ["typedef int T;", "void f(void) { T x; { int T; T = 1; } T y; }"],
    ["typedef int T;", "int f(T (T));", "T x;"],
    ["typedef char T;", "void f(int T) { T = 2; }", "T y;"],
    ["typedef int T, U;", "void f(void) { U T; T * x; }", "T * y;"],
    ["int T;", "void f(void) { typedef int T; T x; }", "int g(void) { return T * 2; }"],
    ["#pragma pack(1)", "struct S0 {\n#pragma pack(2)\n int x;\n};", "#pragma"],
    ["void f(void) {", "#pragma omp parallel", " for (;;) {", "#pragma inner", " } }"],
    ["void f(void) { if (1)\n#pragma a\n#pragma b\n x = 1; }"],
    ['# 10 "one.h" 1', "int x;", '# 20 "two.h" 2', "int y;", '#line 30', "int f(void) { return x; }"],
    ["typedef struct S0 { int x; } T;", "int f(void) { return sizeof(T) + ((T){1}).x + (T){.x = 2}.x; }"],
    ["enum E0 { T, U = T + 1 };", "int x = (T) + 1;", "int g(void) { return (U)(1); }"],
    ["int f(a, b) int a; char b; { return a + b; }"],
    ["int f(int x) { switch (x) { case 1: case 2: x++; break; default: { int T; } } return 0; }"],
    ["_Atomic(int) x;", "_Atomic int * y;", "typedef _Atomic(int *) T;", "T z;"],
    ["typedef int T;", "void f(void) { for (T T = 0; ; ) { T++; } }", "T g;"],
    ["typedef int T;", "struct S1 { T T; int U; };", "T after;"],
    ["typedef int T;", "int f(void) { T: ; goto T; }"],
    ["char *s = \"a\" \"b\" \"c\";", "char *w = L\"x\" L\"y\";"],
    ["int x = _Alignof(int);", "_Alignas(16) char y[4];", "_Static_assert(sizeof(int) >= 2, \"m\");"],
    ["int f(void) { return ({ int T = 1; T; }); }"],
    ["typedef int T;", "_Pragma(\"omp x\")", "T f(T x) {", "_Pragma(\"inside\")", " return x; }"],
    # one snippet per construct family, so that truncation / aborts land inside each of them
    ["typedef int T;", "int scale(v, k)\n  int v;\n  long k;\n{\n  return v * k;\n}", "T after;"],
    ["int g(a, b, c) int a, b; char c; { return a; }", "typedef char a2;"],
    ["struct S1 { int x : 3; unsigned : 0; struct { int a; union { int b; float c; }; } in; } s1;"],
    ["enum E1 { x = 1, y = x << 2, f = sizeof(int), };", "int arr[f];"],
    ["int m[2][3] = { {1, 2, 3}, [1] = { [2] = 7 } };", "struct S0 { int x, y; } p = { .y = 2, .x = 1 };"],
    ["int f(int n, int a[static n], int b[const 3], int c[*]);", "void g(int (*cb)(int, ...), ...);"],
    ["void f(void) { for (int i = 0, j = 1; i < j; i++, j--) { continue; } do ; while (0); }"],
    ["void f(int x) { switch (x) case 1: x++; switch (x) { default: ; } }"],
    ["void f(void) { L0: L1: goto L0; if (1) L2: ; else L3: ; }"],
    ["_Alignas(int) char buf[8];", "_Alignas(16) struct S2 { _Alignas(8) char c; } al;", "int k = _Alignof(struct S2);"],
    ["_Static_assert(sizeof(int) == 4, \"int\");", "void f(void) { _Static_assert(1); }"],
    ["struct S1 { int a; struct { int b; } in; };", "int o1 = offsetof(struct S1, in.b);", "int o2 = offsetof(struct S1, a);"],
    ["typedef struct S0 { int x; } T;", "T f(void) { return (T){ .x = ((T){3}).x }; }", "int z = sizeof(T);"],
    ["void f(void) { int a = ({ int b = 2; b * 2; }); (void)a; }"],
    ["_Noreturn void die(void);", "inline static int sq(int x) { return x * x; }", "_Thread_local int tl;", "extern __int128 big;"],
    ["char c1 = 'a', c2 = '\\n', c3 = '\\x41';", "int w = L'x';", "char *s = \"a\\\"b\" \"c\";", "char *u = u8\"k\";"],
    ["#line 100", "int x;", "# 9", "int y;", "#line 100", "int f(void) { return x + y; }"],
    ["# 1 \"a.h\" 1", "typedef int T;", "# 5 \"top.c\" 2", "T v;", "#line 100", "T w;"],
    ["#pragma once", "#pragma pack(push, 1)", "struct S0 { char c; int i; };", "#pragma pack(pop)", "int tail;"],
    ["void f(void) {\n#pragma omp parallel for\n  for (;;)\n#pragma unroll\n    while (1)\n      ;\n}"],
    ["int (*fp)(int);", "int (*(*fpp)(void))[3];", "int *(*arr[4])(int *, char **);", "typedef int (*T)(int (*)(int));"],
]

# Programs that fail while state is in flight.
FAILING_SNIPPETS = [
    ["typedef int T;", "void f(void) { { { int U;"],
    ["typedef int T, U, V;", "void f(void) { T x; U y; V"],
    ["typedef int T;", "int x = (T"],
    ["void f(void) {", "#pragma pack(1)"],
    ["#pragma pack(1)", "+"],
    ["int x;", "#pragma", "#pragma only", "]"],
    ["struct S0 {", "#pragma pack(2)"],
    ["typedef int T;", "void f(void) { sizeof(T"],
    ["typedef int T;", "void f(int T) { { { `"],
    ['# 77 "other.h"', "typedef int U;", "int f(void) { return @; }"],
    ["typedef int T;", "void f(void) { x = (T){"],
    ["typedef int T;", "int f(void) { T * x; } }"],
    ["typedef int T;", "T T;"],
    ["int T;", "typedef int T;"],
    ["typedef int T;", "void f(void) { char c = 'ab"],
    ["typedef int T;", "void f(void) { char *c = \"abc"],
    ["typedef int T;", "void f(void) { /* comment"],
    ["typedef int T;", "#line \"x.h\"", "T x;"],
    ["typedef int T;", "#define X 1", "T x;"],
    ["typedef int T;", "void f(void) { int a = 08; }"],
    ["typedef int T;", "void f(void) {", "_Pragma(\"x\"", "}"],
    ["typedef int T;", "int a[] = { [", "#pragma pack"],
    # one stray closing bracket (scope underflow instead of scopes left open)
    ["typedef int T }", "int after;"],
    ["typedef int U, V }", "U u;"],
    ["int x }", "T y;"],
    ["int f }", "typedef int f;"],
    ["struct S0 { int a; } } s;"],
    ["enum E0 { x, y } };", "int x;"],
    ["void f(void) { } }", "typedef int T;"],
    ["int f(int x }", "T z;"],
    ["typedef int T;", "T x = (1 });"],
    ["typedef int y ]", "int z;"],
]

ILLEGAL_FRAGMENTS = ["}", "{", ")", "(", "]", "};", "} ;", '# 7 "inc.h" 1 x', '#line 5 "a.h" 3 q', '# 3 "b.h" x', '# 9 "c.h" 1 2 3 4 5',
                     "`", "@", "$", "'", '"', "/*", "//", "#define X", "#include <a.h>", '#line "f.h"',
                     "#line x", "\\", "08", "'ab", "0x", "1.2.3", "#line 9999999999999999999999 \"big.h\"",
                     "# 1 2", "#", "#pragma", "#pragma pack(9)", "_Pragma(\"z\")", "#pragma omp x", "\x7f", "\u00e9", "1e", "'\\q'", '"\\q"']

_TOKEN_RE = re.compile(
    r"""\s+|[A-Za-z_]\w*|\d[\w.]*|"(?:\\.|[^"\\\n])*"|'(?:\\.|[^'\\\n])*'|\#[^\n]*|<<=|>>=|\.\.\.|->|\+\+|--|<<|>>|<=|>=|==|!=|&&|\|\||[-+*/%&|^]=|.""",
    re.S,
)


def deep_program(rng, n=None):
    """Nesting deep enough to need more Python stack than the default limit."""
    n = n or rng.choice([60, 90, 120, 160, 220])
    kind = rng.choice(["paren", "brace", "index", "init"])
    if kind == "paren":
        return ["typedef int T;", "int x = " + "(" * n + "1" + ")" * n + ";", "T after;"]
    if kind == "brace":
        return ["typedef int T;", "void f(void) " + "{ " * n + "T y;" + " }" * n, "T after;"]
    if kind == "index":
        return ["int a[2];", "int x = a" + "[a" * n + "[0]" + "]" * n + ";"]
    return ["int m = " + "{" * n + "1" + "}" * n + ";"]


def cheap_tokens(text):
    """(start, end) spans of non-blank lexemes; approximate on purpose."""
    return [(m.start(), m.end()) for m in _TOKEN_RE.finditer(text) if not m.group(0).isspace()]


_EDIT_TABLE = [
    ["int", "long", "char", "short", "unsigned", "double"],
    ["T", "U", "V"],
    ["x", "y", "f"],
    ["0", "1", "2", "42", "7L", "3u"],
    ["struct", "union"],
    ["+", "-", "*"],
    ["<", ">", "<=", "=="],
]


def edit_items(rng, items, n_edits=1):
    """A near-duplicate of a program: the same text with one or two lexemes
    replaced by another of the same kind (what a user's edit / the next file of
    a generated family looks like).  Token positions stay aligned with the
    original up to the edit."""
    items = list(items)
    for _ in range(n_edits):
        cands = []
        for i, it in enumerate(items):
            for (s, e) in cheap_tokens(it):
                lex = it[s:e]
                for row in _EDIT_TABLE:
                    if lex in row:
                        cands.append((i, s, e, row))
        if not cands:
            return items, "none"
        i, s, e, row = rng.choice(cands)
        old = items[i][s:e]
        new = rng.choice([w for w in row if w != old])
        items[i] = items[i][:s] + new + items[i][e:]
    return items, "edit %r -> %r" % (old, new)


def mutate_items(rng, items, kind):
    """Apply one input fault to the item list; returns (new_items, description).

    trunc    cut at a token boundary (EOF with state in flight)
    illegal  insert an untokenisable / illegal fragment at a token boundary
    bracket  delete / duplicate / swap one bracket token
    """
    items = list(items)
    if not items:
        return items, "none"
    idxs = [i for i, it in enumerate(items) if cheap_tokens(it)]
    if not idxs:
        return items, "none"
    if kind == "trunc":
        i = rng.choice(idxs)
        spans = cheap_tokens(items[i])
        k = rng.randrange(len(spans))
        cut = spans[k][0] if rng.random() < 0.8 else spans[k][1]
        piece = items[i][:cut]
        new = items[:i] + ([piece] if piece.strip() else [])
        return new, "trunc item %d at char %d" % (i, cut)
    if kind == "illegal":
        i = rng.choice(idxs)
        spans = cheap_tokens(items[i])
        k = rng.randrange(len(spans) + 1)
        pos = spans[k][0] if k < len(spans) else len(items[i])
        frag = rng.choice(ILLEGAL_FRAGMENTS)
        if rng.random() < 0.3:
            # directive-like fragments reach lexer state (line, file, pending token): prefer them
            frag = rng.choice([f for f in ILLEGAL_FRAGMENTS if f.startswith("#") or f.startswith("_Pragma")])
        if frag.startswith("#"):
            frag = "\n" + frag + "\n"
        else:
            frag = " " + frag + " "
        items[i] = items[i][:pos] + frag + items[i][pos:]
        return items, "illegal %r in item %d" % (frag.strip(), i)
    if kind == "bracket":
        cands = []
        for i in idxs:
            for (s, e) in cheap_tokens(items[i]):
                if items[i][s:e] in "(){}[]":
                    cands.append((i, s, e))
        if not cands:
            return items, "none"
        i, s, e = rng.choice(cands)
        how = rng.choice(["del", "dup", "swap"])
        ch = items[i][s:e]
        if how == "del":
            rep = ""
        elif how == "dup":
            rep = ch + ch
        else:
            rep = rng.choice([c for c in "(){}[]" if c != ch])
        items[i] = items[i][:s] + rep + items[i][e:]
        return items, "bracket %s %r in item %d" % (how, ch, i)
    return items, "none"


# --------------------------------------------------------------------------
# Repository corpus (read as data; nothing is executed)
# --------------------------------------------------------------------------
_C_HINT = re.compile(r"[;{}]|\bint\b|\btypedef\b|\bchar\b|#pragma|#line")


def harvest_test_snippets(repo):
    """String literals of the repository's tests that look like C snippets."""
    out = []
    seen = set()
    for fn in ("tests/test_c_parser.py", "tests/test_c_generator.py", "tests/test_c_lexer.py"):
        p = os.path.join(repo, fn)
        try:
            tree = pyast.parse(open(p, encoding="utf-8").read())
        except Exception:
            continue
        for node in pyast.walk(tree):
            if isinstance(node, pyast.Constant) and isinstance(node.value, str):
                s = node.value
                if 3 <= len(s) <= 6000 and _C_HINT.search(s) and s not in seen:
                    seen.add(s)
                    out.append(s)
    out.sort()
    return out


def corpus_files(repo, long_inputs=False):
    """[(name, text)] of C files shipped with the repository."""
    res = []
    for d in ("tests/c_files", "examples/c_files"):
        dd = os.path.join(repo, d)
        if not os.path.isdir(dd):
            continue
        for fn in sorted(os.listdir(dd)):
            if fn.endswith((".c", ".h")):
                try:
                    res.append((d + "/" + fn, open(os.path.join(dd, fn), encoding="utf-8", errors="replace").read()))
                except OSError:
                    pass
    if long_inputs:
        dd = os.path.join(repo, "utils/benchmark/inputs")
        if os.path.isdir(dd):
            for fn in sorted(os.listdir(dd)):
                if fn.endswith(".ppout"):
                    res.append(("utils/benchmark/inputs/" + fn, open(os.path.join(dd, fn), encoding="utf-8", errors="replace").read()))
    return res


def split_items(text):
    """Split a C text into rough top-level items (brace depth 0, after ';' or
    '}' at a line end, or a directive line) so the minimiser has something to
    drop.  Joining the items with newlines does not have to reproduce the text
    byte for byte; the split text is what is used everywhere."""
    items = []
    cur = []
    depth = 0
    for line in text.split("\n"):
        cur.append(line)
        stripped = line.strip()
        if not stripped.startswith("#"):
            code = re.sub(r'"(?:\\.|[^"\\])*"|\'(?:\\.|[^\'\\])*\'', "", line)
            depth += code.count("{") - code.count("}")
        if depth <= 0 and (stripped.endswith((";", "}")) or stripped.startswith("#")):
            items.append("\n".join(cur))
            cur = []
            depth = 0
    if cur and "\n".join(cur).strip():
        items.append("\n".join(cur))
    return items
